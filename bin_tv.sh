#!/bin/bash
# usage: bin_tv.sh trace.ndjson  -> prints VERDICT line
d=$(mktemp -d /tmp/tv.XXXXXX)
cd /verif/spec && TRACE="$1" JAVA_TOOL_OPTIONS="-Xss1g" timeout 600 tlc -workers 1 -metadir $d -cleanup -noGenerateSpecTE -config TraceContract.cfg TraceContract.tla 2>&1 | grep -v "^Picked up" | grep -E "VERDICT|UNCONSUMED|Error|error|rror:|line |states generated|Finished" | head -40
rm -rf $d
