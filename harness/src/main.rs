//! ccverif: conformance harness binding the TLA+ specification to the real crate.
//!
//! modes:
//!   random  --seed S --runs R --ops N --out FILE [--ns 2 --np 1 --nw 1 --faultp 0.01 --maxobjs 10]
//!   replay  --in BEHAVIOURS.ndjson --out TRACES.ndjson --report REPORT.json
//!   info    prints build facts (features, sizes) as JSON

mod alloc;
mod director;
mod layout;
mod node;
mod rec;
mod threads;
mod world;

use serde_json::{json, Value};
use std::io::{BufRead, BufWriter, Write};

use node::{Node, Pad};

#[global_allocator]
static A: alloc::Tracker = alloc::Tracker;

pub fn build_flags() -> Value {
    json!({
        "fin": cfg!(feature = "fin"),
        "weak": cfg!(feature = "weak"),
        "clean": cfg!(feature = "clean"),
        "auto": cfg!(feature = "auto"),
        "dbg": cfg!(debug_assertions),
    })
}

fn arg(args: &[String], name: &str) -> Option<String> {
    args.iter().position(|a| a == name).and_then(|i| args.get(i + 1).cloned())
}
fn arg_num<T: std::str::FromStr>(args: &[String], name: &str, default: T) -> T {
    arg(args, name).and_then(|v| v.parse().ok()).unwrap_or(default)
}

pub fn on_fresh_thread<R: Send + 'static>(f: impl FnOnce() -> R + Send + 'static) -> R {
    std::thread::Builder::new()
        .stack_size(1 << 20)
        .spawn(f)
        .expect("spawn")
        .join()
        .expect("harness thread panicked")
}

fn reset_event(run: u64, ns: u32, np: u32, nw: u32, auto: bool) -> Value {
    let mut v = build_flags();
    let m = v.as_object_mut().unwrap();
    m.insert("e".into(), json!("reset"));
    m.insert("run".into(), json!(run));
    m.insert("ns".into(), json!(ns));
    m.insert("np".into(), json!(np));
    m.insert("nw".into(), json!(nw));
    m.insert("auto".into(), json!(auto && cfg!(feature = "auto")));
    m.insert("sz".into(), json!(node_box_size::<()>()));
    v
}

fn node_box_size<P: Pad>() -> usize {
    // CcBox header = next, prev (2 words), metadata (fat pointer, 2 words), counter marker (4 bytes)
    let header = std::alloc::Layout::new::<(usize, usize, [usize; 2], [u16; 2])>();
    header.extend(std::alloc::Layout::new::<Node<P>>()).unwrap().0.pad_to_align().size()
}

fn start_run<P: Pad>(reset: &Value) {
    let ns = reset["ns"].as_u64().unwrap_or(2) as u32;
    let np = reset["np"].as_u64().unwrap_or(0) as u32;
    let nw = reset["nw"].as_u64().unwrap_or(0) as u32;
    #[cfg(feature = "auto")]
    {
        let auto = reset["auto"].as_bool().unwrap_or(false);
        let _ = rust_cc::config::config(|c| c.set_auto_collect(auto));
    }
    world::install::<P>(Box::new(world::World::<P>::new(ns, np, nw)));
    rec::REAL_SZ.with(|c| c.set(node_box_size::<P>() as u64));
    rec::emit(reset.clone());
}

// ------------------------------------------------------------------ random mode

fn random_run<P: Pad>(seed: u64, run: u64, ops: usize, ns: u32, np: u32, nw: u32, faultp: f64, maxobjs: u32, auto: bool, clean: bool) -> Vec<String> {
    let reset = reset_event(run, ns, np, nw, auto);
    start_run::<P>(&reset);
    director::set(director::new_random(
        seed.wrapping_mul(0x9E37_79B9).wrapping_add(run),
        director::RandomCfg { max_objs: maxobjs, fault_p: faultp, max_faults: if faultp > 0.0 { 3 } else { 0 }, cb_act_p: 0.45, weak: cfg!(feature = "weak"), fin_ops: true, auto, clean },
    ));
    for step in 0..ops {
        let op = world::with_world::<P, _>(|w| {
            director::with_random(|r| {
                use rand::Rng;
                r.cb_budget = 4;
                if r.queue.is_empty() && step % 61 == 3 && r.rng.gen_bool(0.7) {
                    director::gen_scenario(r, w);
                }
                if r.queue.is_empty() && world::LAST_PANICKED.with(|c| c.replace(false)) && r.rng.gen_bool(0.6) {
                    director::gen_probe(r, w);
                }
                match r.queue.pop_front() {
                    Some(mut op) => {
                        if let Some(k) = op.as_object_mut().and_then(|m| m.remove("armdrop")) {
                            r.arm_drop = k.as_u64().map(|k| k as u32);
                        }
                        Some(op)
                    }
                    None => director::gen_top_op(r, w),
                }
            })
            .flatten()
        });
        if let Some(op) = op {
            if world::valid::<P>(&op) {
                let is_collect = op["op"] == "collect";
                world::exec::<P>(&op);
                if is_collect {
                    // repeat until quiet, so that the completeness clause can be evaluated
                    for _ in 0..3 {
                        world::exec::<P>(&json!({"e": "call", "op": "collect"}));
                    }
                }
            }
        }
        if alloc::overflowed() {
            eprintln!("harness: free log overflow");
            std::process::exit(2);
        }
    }
    director::set(director::Dir::Idle);
    world::uninstall();
    rec::take_output()
}

fn main_random(args: &[String]) {
    let seed: u64 = arg_num(args, "--seed", 1);
    let runs: u64 = arg_num(args, "--runs", 1);
    let ops: usize = arg_num(args, "--ops", 1000);
    let ns: u32 = arg_num(args, "--ns", 2);
    let np: u32 = arg_num(args, "--np", 1);
    let nw: u32 = arg_num(args, "--nw", 1);
    let faultp: f64 = arg_num(args, "--faultp", 0.0);
    let maxobjs: u32 = arg_num(args, "--maxobjs", 10);
    let auto = arg(args, "--auto").map_or(false, |v| v == "1");
    let clean = arg(args, "--clean").map_or(false, |v| v == "1") && cfg!(feature = "clean");
    let out = arg(args, "--out").expect("--out");
    let mut f = BufWriter::new(std::fs::File::create(&out).expect("create out"));
    let mut total = 0usize;
    let par: u64 = arg_num(args, "--par", 1);
    let mut run = 0;
    while run < runs {
        // `par` runs at a time on concurrent threads (free-running: the OS scheduler interleaves them)
        let hs: Vec<_> = (run..(run + par).min(runs))
            .map(|r| std::thread::Builder::new().stack_size(4 << 20).spawn(move || random_run::<()>(seed, r, ops, ns, np, nw, faultp, maxobjs, auto, clean)).expect("spawn"))
            .collect();
        run += par;
        for h in hs {
            let lines = h.join().expect("harness thread panicked");
            total += lines.len();
            for l in lines {
                writeln!(f, "{}", l).unwrap();
            }
        }
    }
    f.flush().unwrap();
    println!("{}", json!({"mode": "random", "runs": runs, "events": total, "build": build_flags()}));
}

// ------------------------------------------------------------------ replay mode

struct ReplayOutcome {
    lines: Vec<String>,
    drift: Option<(usize, String)>,
    consumed: usize,
    total: usize,
}

fn replay_one<P: Pad>(events: Vec<Value>) -> ReplayOutcome {
    let total = events.len();
    let reset = events[0].clone();
    rec::load_script(events);
    director::set(director::Dir::Replay);
    start_run::<P>(&reset);
    loop {
        if rec::has_drift() {
            break;
        }
        match rec::peek() {
            Some(e) if e["e"] == "call" => {
                if !world::valid::<P>(&e) {
                    break;
                }
                world::exec::<P>(&e);
            }
            _ => break,
        }
    }
    if rec::has_drift() {
        // The code left the model's prediction. Keep going with the rest of the scripted program
        // (callbacks now return at once, operations that no longer apply are skipped) and finish
        // with collections until quiet, so that the contract monitor can judge the outcome.
        let rest: Vec<Value> = rec::remaining_top_level_calls();
        for e in rest {
            if world::valid::<P>(&e) {
                world::exec::<P>(&e);
            }
        }
        for _ in 0..3 {
            world::exec::<P>(&json!({"e": "call", "op": "collect"}));
        }
    }
    director::set(director::Dir::Idle);
    world::uninstall();
    let consumed = rec::cursor();
    let drift = rec::drifted().or_else(|| if consumed < total { Some((consumed, "script not fully consumed".to_string())) } else { None });
    ReplayOutcome { lines: rec::take_output(), drift, consumed, total }
}

/// Plain scripts: one JSON array of top-level `call` events per line; a call may carry
/// "ft": [k, j] (k-th trace callback of the operation panics after j children),
/// "ff": k / "fd": k (k-th finalize / drop callback panics). First element: reset event.
fn script_one<P: Pad>(events: Vec<Value>) -> Vec<String> {
    let reset = events[0].clone();
    start_run::<P>(&reset);
    let mut inops: std::collections::HashMap<String, std::collections::VecDeque<Value>> = Default::default();
    for e in events.iter().skip(1) {
        if e["e"] == "plan" {
            // {"e":"plan","in":{"action:1":[ops...],"finalize:2":[...]}}: what callbacks do when they run
            if let Some(m) = e["in"].as_object() {
                for (k, v) in m {
                    inops.insert(k.clone(), v.as_array().cloned().unwrap_or_default().into_iter().collect());
                }
            }
            continue;
        }
        let mut plan = director::FaultPlan::default();
        plan.inops = std::mem::take(&mut inops);
        if let Some(a) = e.get("ft").and_then(|v| v.as_array()) {
            plan.trace = Some((a[0].as_u64().unwrap() as u32, a[1].as_u64().unwrap() as u32));
        }
        plan.finalize = e.get("ff").and_then(|v| v.as_u64()).map(|v| v as u32);
        plan.drop = e.get("fd").and_then(|v| v.as_u64()).map(|v| v as u32);
        director::set(director::Dir::Script(plan));
        let mut c = e.clone();
        if let Some(m) = c.as_object_mut() {
            m.remove("ft");
            m.remove("ff");
            m.remove("fd");
        }
        if !world::valid::<P>(&c) {
            break;
        }
        world::exec::<P>(&c);
        // keep the callback plans that were not consumed
        inops = director::take_inops();
    }
    director::set(director::Dir::Idle);
    world::uninstall();
    rec::take_output()
}

fn main_script(args: &[String]) {
    let inp = arg(args, "--in").expect("--in");
    let out = arg(args, "--out").expect("--out");
    let rdr = std::io::BufReader::new(std::fs::File::open(&inp).expect("open in"));
    let mut f = BufWriter::new(std::fs::File::create(&out).expect("create out"));
    let (mut n, mut events, mut skipped) = (0u64, 0usize, 0u64);
    for (lineno, line) in rdr.lines().enumerate() {
        let line = line.unwrap();
        if line.trim().is_empty() {
            continue;
        }
        let mut evs: Vec<Value> = match serde_json::from_str(&line) {
            Ok(Value::Array(a)) => a,
            _ => {
                eprintln!("harness: bad script line {}", lineno + 1);
                std::process::exit(2);
            }
        };
        let given = evs[0].clone();
        let g = |k: &str, d: u64| given.get(k).and_then(|v| v.as_u64()).unwrap_or(d) as u32;
        // a script that uses weak pointers cannot run on a build without them
        let needs_weak = g("nw", 0) > 0
            || ["downgrade", "upgrade", "upgradef", "clonew", "dropw", "wq", "wnew", "setw", "clearw", "savew", "wprobe", "newcyc"].iter().any(|op| line.contains(&format!("\"op\":\"{}\"", op)));
        if needs_weak && !cfg!(feature = "weak") {
            skipped += 1;
            continue;
        }
        evs[0] = reset_event(lineno as u64, g("ns", 2), g("np", 0), g("nw", 0), given.get("auto").and_then(|v| v.as_bool()).unwrap_or(false));
        let lines = on_fresh_thread(move || script_one::<()>(evs));
        n += 1;
        events += lines.len();
        for l in lines {
            writeln!(f, "{}", l).unwrap();
        }
    }
    f.flush().unwrap();
    println!("{}", json!({"mode": "script", "scripts": n, "skipped": skipped, "events": events, "build": build_flags()}));
}

fn build_matches(reset: &Value) -> bool {
    let b = build_flags();
    for k in ["fin", "weak", "dbg"] {
        if reset.get(k).is_some() && reset[k] != b[k] {
            return false;
        }
    }
    // a behaviour that does not use cleaners can be replayed on a build that has them
    if reset["clean"] == true && b["clean"] != true {
        return false;
    }
    if reset["auto"] == true && b["auto"] != true {
        return false;
    }
    true
}

fn main_replay(args: &[String]) {
    let inp = arg(args, "--in").expect("--in");
    let out = arg(args, "--out").expect("--out");
    let report = arg(args, "--report");
    // only drifted behaviours and every `sample`-th lock-step-equal one are written out for TLC validation
    let sample: u64 = arg_num(args, "--sample", 1);
    let seed: u64 = arg_num(args, "--seed", 0);
    let mut written = 0u64;
    let rdr = std::io::BufReader::new(std::fs::File::open(&inp).expect("open in"));
    let mut f = BufWriter::new(std::fs::File::create(&out).expect("create out"));
    let (mut n, mut drifted, mut skipped, mut events) = (0u64, 0u64, 0u64, 0usize);
    let mut drift_samples: Vec<Value> = Vec::new();
    for (lineno, line) in rdr.lines().enumerate() {
        let line = line.unwrap();
        if line.trim().is_empty() {
            continue;
        }
        let mut evs: Vec<Value> = match serde_json::from_str(&line) {
            Ok(Value::Array(a)) => a,
            _ => {
                eprintln!("harness: bad behaviour line {}", lineno + 1);
                std::process::exit(2);
            }
        };
        if evs.is_empty() {
            continue;
        }
        // the behaviour's reset event says what build it is meant for; dbg is taken from the build
        let model_sz = evs[0].get("sz").and_then(|v| v.as_u64()).unwrap_or(144);
        if let Some(m) = evs[0].as_object_mut() {
            m.insert("dbg".into(), json!(cfg!(debug_assertions)));
            m.insert("run".into(), json!(lineno as u64));
            m.insert("sz".into(), json!(node_box_size::<()>()));
            let model_clean = m.get("clean").and_then(|v| v.as_bool()).unwrap_or(false);
            if !(model_clean && !cfg!(feature = "clean")) {
                m.insert("clean".into(), json!(cfg!(feature = "clean")));
            }
        }
        if !build_matches(&evs[0]) {
            skipped += 1;
            continue;
        }
        let r = on_fresh_thread(move || {
            rec::MODEL_SZ.with(|c| c.set(model_sz));
            replay_one::<()>(evs)
        });
        n += 1;
        events += r.lines.len();
        if let Some((pos, what)) = &r.drift {
            drifted += 1;
            if drift_samples.len() < 10 {
                drift_samples.push(json!({"behaviour": lineno + 1, "pos": pos, "what": what, "consumed": r.consumed, "total": r.total}));
            }
        }
        if r.drift.is_some() || (lineno as u64 + seed) % sample == 0 {
            written += 1;
            for l in r.lines {
                writeln!(f, "{}", l).unwrap();
            }
        }
        if alloc::overflowed() {
            eprintln!("harness: free log overflow");
            std::process::exit(2);
        }
    }
    f.flush().unwrap();
    let rep = json!({"mode": "replay", "behaviours": n, "written": written, "skipped": skipped, "drifted": drifted, "events": events, "drift_samples": drift_samples, "build": build_flags()});
    if let Some(r) = report {
        std::fs::write(r, rep.to_string()).unwrap();
    }
    println!("{}", rep);
}

fn main() {
    std::panic::set_hook(Box::new(|_| {}));
    rec::install_observer();
    let args: Vec<String> = std::env::args().collect();
    match args.get(1).map(|s| s.as_str()) {
        Some("random") => main_random(&args),
        Some("replay") => main_replay(&args),
        Some("script") => main_script(&args),
        Some("layout") => {
            // layout grid: one run per payload type, recorded for the contract monitor
            let out = arg(&args, "--out").expect("--out");
            let mut lines = Vec::new();
            let n = layout::run_all(&mut lines);
            let mut f = BufWriter::new(std::fs::File::create(&out).expect("create out"));
            for l in &lines {
                writeln!(f, "{}", l).unwrap();
            }
            f.flush().unwrap();
            println!("{}", json!({"mode": "layout", "runs": n, "events": lines.len(), "build": build_flags()}));
        }
        Some("threads") => {
            // schedules enumerated by TLC (spec/Threads.tla), one JSON object per line
            let inp = arg(&args, "--in").expect("--in");
            let out = arg(&args, "--out").expect("--out");
            let rdr = std::io::BufReader::new(std::fs::File::open(&inp).expect("open in"));
            let mut f = BufWriter::new(std::fs::File::create(&out).expect("create out"));
            let (mut n, mut ev, mut traces) = (0u64, 0usize, 0u64);
            for line in rdr.lines() {
                let line = line.unwrap();
                if line.trim().is_empty() {
                    continue;
                }
                let s: Value = serde_json::from_str(&line).expect("schedule json");
                let per_thread = threads::run_schedule(&s, n * 16);
                n += 1;
                for t in per_thread {
                    traces += 1;
                    ev += t.len();
                    for l in t {
                        writeln!(f, "{}", l).unwrap();
                    }
                }
            }
            f.flush().unwrap();
            let (late, late_bad) = alloc::late_frees();
            println!("{}", json!({"mode": "threads", "schedules": n, "runs": traces, "events": ev, "late_frees": late, "late_double_frees": late_bad, "build": build_flags()}));
        }
        Some("policy") => {
            // rows [thr, bytes, pn, pd, expected threshold] written by TLC from spec/Policy.tla
            let inp = arg(&args, "--in").expect("--in");
            let v: Value = serde_json::from_str(&std::fs::read_to_string(inp).expect("read rows")).expect("rows json");
            let rows: Vec<Value> = v["rows"].as_array().cloned().unwrap_or_default();
            let r = layout::policy_grid(&rows);
            println!("{}", json!({"mode": "policy", "result": r, "build": build_flags()}));
        }
        Some("ptr") => {
            // pointer tables: --in file with the JSON table printed by TLC from PtrSpec.tla
            let inp = arg(&args, "--in").expect("--in");
            let table: Vec<Value> = serde_json::from_str(&std::fs::read_to_string(inp).expect("read table")).expect("table json");
            let r = on_fresh_thread(move || layout::ptr_tables(&table));
            println!("{}", json!({"mode": "ptr", "result": r, "build": build_flags()}));
        }
        Some("satgraph") => {
            // saturation through traced owners: --in file with the JSON rows printed by TLC from SatGraph.tla
            let inp = arg(&args, "--in").expect("--in");
            let table: Vec<Value> = serde_json::from_str(&std::fs::read_to_string(inp).expect("read table")).expect("table json");
            let r = on_fresh_thread(move || layout::sat_graph(&table));
            println!("{}", json!({"mode": "satgraph", "result": r, "build": build_flags()}));
        }
        Some("info") => println!("{}", json!({"build": build_flags(), "node_box_size": node_box_size::<()>()})),
        _ => {
            eprintln!("usage: ccverif random|replay|info ...");
            std::process::exit(2);
        }
    }
}
