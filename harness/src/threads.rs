//! C19: real threads replay the schedules enumerated by TLC from spec/Threads.tla.
//! One baton: exactly one thread runs one step at a time, in the order of the schedule.
//! Each thread records its own trace (through the global sink, so that the events of the
//! thread-local destructors are recorded too); each trace is validated separately by the
//! single-thread contract monitor, with exact counters.

use serde_json::{json, Value};
use std::cell::RefCell;
use std::sync::mpsc::{channel, Receiver, Sender};

use crate::node::Pad;
use crate::rec;
use crate::world::{self, World};

/// The user's thread-local: it owns the program-held handles at thread exit.
struct UserTls {
    world: RefCell<Option<Box<World<()>>>>,
    /// 0 = drop the handles, 1 = leak them, 2 = call collect_cycles() first, then drop them
    mode: std::cell::Cell<u8>,
}

impl Drop for UserTls {
    fn drop(&mut self) {
        rec::emit(json!({"e": "tls", "which": "user"}));
        if let Some(w) = self.world.borrow_mut().take() {
            if self.mode.get() == 1 {
                std::mem::forget(w);
                return;
            }
            let mut w = w;
            let counters = || {
                (rust_cc::state::executions_count().map(|v| v as i64).unwrap_or(-1), rust_cc::state::allocated_bytes().map(|v| v as i64).unwrap_or(-1),
                 rust_cc::state::buffered_objects_count().map(|v| v as i64).unwrap_or(-1), rust_cc::state::is_tracing().unwrap_or(false))
            };
            if self.mode.get() == 2 {
                // a collection requested while the thread-locals are being destroyed: it runs if the collector's own
                // thread-locals are still there and is a no-op otherwise; either way the collector is idle afterwards
                rec::emit(json!({"e": "call", "op": "tcollect", "x": counters().0}));
                rust_cc::collect_cycles();
                let (x, by, bf, it) = counters();
                rec::emit(json!({"e": "ret", "op": "tcollect", "res": "", "panic": "", "x": x, "by": by, "bf": bf, "it": it}));
                // creating (and releasing) an object still works at this point, whether the collector's thread-locals are gone or not;
                // the allocation is not tracked (no events): the point is that the call comes back
                let _ = rec::MUTE.try_with(|m| m.set(true));
                let probe = rust_cc::Cc::new(0xFEEDu32);
                let v = *probe;
                drop(probe);
                let _ = rec::MUTE.try_with(|m| m.set(false));
                rec::emit(json!({"e": "probe", "what": "teardown-alloc", "ok": v == 0xFEED}));
            }
            // drop every handle, one logged operation each; observations are reduced to the
            // public counters (the handle tables are going away)
            let ids: Vec<u32> = w.roots.keys().copied().collect();
            for o in ids {
                while let Some(h) = w.roots.get_mut(&o).and_then(|v| v.pop()) {
                    let x = rust_cc::state::executions_count().map(|v| v as i64).unwrap_or(-1);
                    rec::emit(json!({"e": "call", "op": "drop", "o": o, "x": x}));
                    drop(h);
                    rec::emit(json!({"e": "ret", "op": "drop", "res": "", "panic": "",
                        "x": rust_cc::state::executions_count().map(|v| v as i64).unwrap_or(-1),
                        "by": rust_cc::state::allocated_bytes().map(|v| v as i64).unwrap_or(-1),
                        "bf": rust_cc::state::buffered_objects_count().map(|v| v as i64).unwrap_or(-1),
                        "it": rust_cc::state::is_tracing().unwrap_or(false)}));
                }
            }
            std::mem::forget(w);
        }
    }
}

thread_local! {
    static USER: UserTls = UserTls { world: RefCell::new(None), mode: std::cell::Cell::new(0) };
}

/// The catalogue of programs of spec/Threads.tla: step `i` (1-based) of program `p`.
fn step_op(p: u64, i: usize) -> Value {
    let c = |v: Value| v;
    match (p, i) {
        (1, 1) => c(json!({"e": "call", "op": "new", "o": 1})),
        (1, 2) => c(json!({"e": "call", "op": "clone", "o": 1})),
        (1, 3) => c(json!({"e": "call", "op": "drop", "o": 1})),
        (2, 1) => c(json!({"e": "call", "op": "new", "o": 1})),
        (2, 2) => c(json!({"e": "call", "op": "set", "a": 1, "k": "s", "i": 1, "b": 1})),
        (2, 3) => c(json!({"e": "call", "op": "drop", "o": 1})),
        (2, 4) => c(json!({"e": "call", "op": "collect"})),
        (3, 1) => c(json!({"e": "call", "op": "new", "o": 1})),
        (3, 2) => c(json!({"e": "call", "op": "new", "o": 2})),
        (3, 3) => c(json!({"e": "call", "op": "set", "a": 1, "k": "s", "i": 1, "b": 2})),
        (3, 4) => c(json!({"e": "call", "op": "set", "a": 2, "k": "s", "i": 1, "b": 1})),
        (3, 5) => c(json!({"e": "call", "op": "drop", "o": 1})),
        (3, 6) => c(json!({"e": "call", "op": "drop", "o": 2})),
        (5, 1) => c(json!({"e": "call", "op": "new", "o": 1})),
        (5, 2) => c(json!({"e": "call", "op": "set", "a": 1, "k": "s", "i": 1, "b": 1})),
        (4, 1) => c(json!({"e": "call", "op": "setcfg", "auto": true, "pn": 1, "pd": 10, "bt": 0})),
        (4, 2) => c(json!({"e": "call", "op": "new", "o": 1})),
        (4, 3) => c(json!({"e": "call", "op": "new", "o": 2})),
        (4, 4) => c(json!({"e": "call", "op": "new", "o": 3})),
        _ => json!(null),
    }
}

fn worker(sid: u64, prog: u64, order_user_first: bool, mode: u8, go: Receiver<usize>, done: Sender<()>) {
    rec::SINK_ID.with(|c| c.set(sid));
    // The order of first access decides the order of destruction (reverse of registration):
    // "user_first" = the user's thread-local is destroyed before the collector's buffer.
    if !order_user_first {
        USER.with(|u| u.mode.set(mode)); // registered first => destroyed last
    }
    let mut reset = crate::build_flags();
    {
        let m = reset.as_object_mut().unwrap();
        m.insert("e".into(), json!("reset"));
        m.insert("auto".into(), json!(false));
        m.insert("ns".into(), json!(1));
        m.insert("np".into(), json!(0));
        m.insert("nw".into(), json!(0));
        m.insert("run".into(), json!(sid));
    }
    #[cfg(feature = "auto")]
    let _ = rust_cc::config::config(|c| c.set_auto_collect(false));
    let w = Box::new(World::<()>::new(1, 0, 0));
    let wp = Box::into_raw(w);
    world::install_raw(wp as *mut ());
    rec::emit(reset);
    // touch the collector's buffer thread-local now (buffer registered here)
    let _ = rust_cc::state::buffered_objects_count();
    {
        // buffer an object and unbuffer it again, so that POSSIBLE_CYCLES is certainly initialised
        let warm = json!({"e": "call", "op": "collect"});
        world::exec::<()>(&warm);
    }
    if order_user_first {
        USER.with(|u| u.mode.set(mode)); // registered after the buffer => destroyed before it
    }
    while let Ok(i) = go.recv() {
        if i == 0 {
            break;
        }
        let op = step_op(prog, i);
        if world::valid::<()>(&op) {
            world::exec::<()>(&op);
        } else {
            rec::emit(json!({"e": "harness-invalid-step", "p": prog, "i": i}));
        }
        let _ = done.send(());
    }
    // hand the handles over to the user's thread-local; they are dropped (or leaked) by its destructor
    world::uninstall();
    USER.with(|u| *u.world.borrow_mut() = Some(unsafe { Box::from_raw(wp) }));
    let _ = done.send(());
}

/// Runs one schedule: {"progs":[p1,..],"order":[..],"exit":[..],"sched":[t,...]}. Returns per-thread traces.
pub fn run_schedule(s: &Value, base: u64) -> Vec<Vec<String>> {
    let k = s["progs"].as_array().map_or(0, |a| a.len());
    let mut gos = Vec::new();
    let mut dones = Vec::new();
    let mut hs = Vec::new();
    for t in 0..k {
        let (gtx, grx) = channel::<usize>();
        let (dtx, drx) = channel::<()>();
        let prog = s["progs"][t].as_u64().unwrap();
        let uf = s["order"][t] == "user_first";
        let mode: u8 = if s["exit"][t] == "leak" { 1 } else if s["exit"][t] == "collect" { 2 } else { 0 };
        let sid = base + t as u64 + 1;
        hs.push(std::thread::Builder::new().stack_size(1 << 20).spawn(move || worker(sid, prog, uf, mode, grx, dtx)).unwrap());
        gos.push(gtx);
        dones.push(drx);
    }
    let mut pos = vec![0usize; k];
    for t in s["sched"].as_array().unwrap() {
        let t = t.as_u64().unwrap() as usize - 1;
        pos[t] += 1;
        gos[t].send(pos[t]).unwrap();
        dones[t].recv().unwrap();
    }
    // threads exit one after the other (teardown of one thread never overlaps the others' steps here;
    // the free-running mode covers overlapping teardown)
    for t in 0..k {
        gos[t].send(0).unwrap();
        let _ = dones[t].recv();
    }
    let mut ok = true;
    for h in hs {
        ok &= h.join().is_ok();
    }
    let all = rec::take_sink();
    let mut out = vec![Vec::new(); k];
    for (sid, line) in all {
        let t = (sid - base - 1) as usize;
        if t < k {
            out[t].push(line);
        }
    }
    if !ok {
        out[0].push(json!({"e": "harness-thread-panicked"}).to_string());
    }
    out
}

#[allow(dead_code)]
fn _unused<P: Pad>() {}
