//! Payload type with logging callbacks.

use rust_cc::*;
use serde_json::json;
use std::cell::{Cell, RefCell};

use crate::director::{self, CbKind, Decision};
use crate::rec::emit;
use crate::world;

pub const CANARY: u32 = 0x00C0_FFEE;
pub const DEAD: u32 = 0x0000_DEAD;

pub struct Injected;

/// Padding carried by a node (drives the size/alignment grid).
pub trait Pad: Default + 'static {}
impl Pad for () {}

pub fn is_tracing() -> bool {
    state::is_tracing().unwrap_or(false)
}

/// A strong pointer field. Its drop glue is logged as an operation of its own.
pub struct Slot<P: Pad> {
    pub owner: u32,
    pub kind: char, // 's' traced, 'p' untraced
    pub idx: u32,   // 1-based
    pub target: u32,
    pub inner: Option<Cc<Node<P>>>,
}

struct GlueGuard {
    op: &'static str,
    a: u32,
    k: char,
    i: u32,
    /// the glue runs as part of an unwinding that started elsewhere
    entered_panicking: bool,
}
impl Drop for GlueGuard {
    fn drop(&mut self) {
        emit(json!({"e": "ret", "op": self.op, "a": self.a, "k": self.k.to_string(), "i": self.i, "panic": if std::thread::panicking() && !self.entered_panicking { "unwind" } else { "" }}));
    }
}

impl<P: Pad> Drop for Slot<P> {
    fn drop(&mut self) {
        if let Some(cc) = self.inner.take() {
            emit(json!({"e": "call", "op": "glue", "a": self.owner, "k": self.kind.to_string(), "i": self.idx, "o": self.target}));
            let _g = GlueGuard { op: "glue", a: self.owner, k: self.kind, i: self.idx, entered_panicking: std::thread::panicking() };
            drop(cc);
        }
    }
}

#[cfg(feature = "weak")]
pub struct WSlot<P: Pad> {
    pub owner: u32,
    pub idx: u32,
    pub target: u32,
    pub inner: Option<weak::Weak<Node<P>>>,
}

#[cfg(feature = "weak")]
impl<P: Pad> Drop for WSlot<P> {
    fn drop(&mut self) {
        if let Some(w) = self.inner.take() {
            emit(json!({"e": "call", "op": "gluew", "a": self.owner, "k": "w", "i": self.idx, "o": self.target}));
            let _g = GlueGuard { op: "gluew", a: self.owner, k: 'w', i: self.idx, entered_panicking: std::thread::panicking() };
            drop(w);
        }
    }
}

pub struct Node<P: Pad = ()> {
    pub id: u32,
    pub canary: Cell<u32>,
    pub slots: RefCell<Vec<Slot<P>>>,
    pub pins: RefCell<Vec<Slot<P>>>,
    #[cfg(feature = "weak")]
    pub wslots: RefCell<Vec<WSlot<P>>>,
    #[cfg(feature = "clean")]
    pub cleaner: CleanerSlot,
    pub pad: P,
}

/// The Cleaner field of a node; its drop glue is logged (when actions were registered).
#[cfg(feature = "clean")]
pub struct CleanerSlot {
    pub owner: u32,
    pub registered: Cell<bool>,
    pub inner: std::mem::ManuallyDrop<cleaners::Cleaner>,
}

#[cfg(feature = "clean")]
impl Drop for CleanerSlot {
    fn drop(&mut self) {
        if self.registered.get() {
            emit(json!({"e": "call", "op": "gluec", "a": self.owner}));
            let _g = GlueGuard { op: "gluec", a: self.owner, k: 'c', i: 0, entered_panicking: std::thread::panicking() };
            unsafe { std::mem::ManuallyDrop::drop(&mut self.inner) };
        } else {
            unsafe { std::mem::ManuallyDrop::drop(&mut self.inner) };
        }
    }
}

/// A Cc captured by a cleaning action. Dropping it (after the action ran, or when the
/// closure is dropped without having run) is logged like a field drop.
#[cfg(feature = "clean")]
pub struct CapSlot<P: Pad> {
    pub owner: u32,
    pub action: u32,
    pub target: u32,
    pub inner: Option<Cc<Node<P>>>,
}

#[cfg(feature = "clean")]
impl<P: Pad> Drop for CapSlot<P> {
    fn drop(&mut self) {
        world::caps_remove(self.owner, self.action);
        if let Some(cc) = self.inner.take() {
            emit(json!({"e": "call", "op": "glue", "a": self.owner, "k": "c", "i": self.action, "o": self.target}));
            let _g = GlueGuard { op: "glue", a: self.owner, k: 'c', i: self.action, entered_panicking: std::thread::panicking() };
            drop(cc);
        }
    }
}

/// Body of a cleaning action.
#[cfg(feature = "clean")]
pub fn action_body<P: Pad>(c: u32, cap: CapSlot<P>) {
    emit(json!({"e": "cb", "cb": "action", "o": c, "it": is_tracing(), "ok": true}));
    world::push_ctx(0, std::ptr::null(), CbKind::Action);
    let mut g = CbGuard { cb: "action", o: c, done: false };
    loop {
        match director::next_in_cb::<P>(CbKind::Action, c) {
            Decision::Do(op) => world::exec::<P>(&op),
            Decision::Return => {
                g.done = true;
                emit(json!({"e": "cbx", "cb": "action", "o": c, "panic": false}));
                break;
            }
            Decision::Panic => {
                g.done = true;
                emit(json!({"e": "cbx", "cb": "action", "o": c, "panic": true}));
                if std::thread::panicking() {
                    break;
                }
                drop(g);
                std::panic::panic_any(Injected);
            }
        }
    }
    drop(cap);
}

impl<P: Pad> Node<P> {
    pub fn new(id: u32, ns: u32, np: u32, nw: u32) -> Node<P> {
        let _ = nw;
        Node {
            id,
            canary: Cell::new(CANARY ^ id),
            slots: RefCell::new((1..=ns).map(|i| Slot { owner: id, kind: 's', idx: i, target: 0, inner: None }).collect()),
            pins: RefCell::new((1..=np).map(|i| Slot { owner: id, kind: 'p', idx: i, target: 0, inner: None }).collect()),
            #[cfg(feature = "weak")]
            wslots: RefCell::new((1..=nw).map(|i| WSlot { owner: id, idx: i, target: 0, inner: None }).collect()),
            #[cfg(feature = "clean")]
            cleaner: CleanerSlot { owner: id, registered: Cell::new(false), inner: std::mem::ManuallyDrop::new(cleaners::Cleaner::new()) },
            pad: P::default(),
        }
        .born()
    }
    fn born(self) -> Self {
        world::live_add(self.id);
        self
    }
}

impl<P: Pad> Node<P> {
    pub fn canary_ok(&self, expect_id: u32) -> bool {
        self.id == expect_id && self.canary.get() == CANARY ^ expect_id
    }
}

struct CbGuard {
    cb: &'static str,
    o: u32,
    done: bool,
}
impl Drop for CbGuard {
    fn drop(&mut self) {
        world::pop_ctx();
        if !self.done {
            emit(json!({"e": "cbx", "cb": self.cb, "o": self.o, "panic": true}));
        }
    }
}

/// Body shared by the finalize / drop callbacks.
fn callback<P: Pad>(kind: CbKind, node: &Node<P>) {
    let o = node.id;
    let ok = node.canary.get() == CANARY ^ o;
    if kind == CbKind::Drop && ok {
        world::live_remove(o);
    }
    emit(json!({"e": "cb", "cb": kind.name(), "o": o, "it": is_tracing(), "ok": ok}));
    if kind == CbKind::Drop && ok && world::PENDING_NEW.try_with(|c| c.get()).unwrap_or(0) == o {
        // The value never reached an allocation: Cc::new is unwinding (its automatic collection panicked)
        node.canary.set(DEAD);
        emit(json!({"e": "cbx", "cb": "drop", "o": o, "panic": false}));
        return;
    }
    world::push_ctx(o, node as *const Node<P> as *const (), kind);
    let mut g = CbGuard { cb: kind.name(), o, done: false };
    if !ok {
        // garbage memory: do not act on it
        g.done = true;
        emit(json!({"e": "cbx", "cb": kind.name(), "o": o, "panic": false}));
        return;
    }
    loop {
        match director::next_in_cb::<P>(kind, o) {
            Decision::Do(op) => world::exec::<P>(&op),
            Decision::Return => {
                if kind == CbKind::Drop {
                    node.canary.set(DEAD);
                }
                g.done = true;
                emit(json!({"e": "cbx", "cb": kind.name(), "o": o, "panic": false}));
                return;
            }
            Decision::Panic => {
                if kind == CbKind::Drop {
                    node.canary.set(DEAD);
                }
                g.done = true;
                emit(json!({"e": "cbx", "cb": kind.name(), "o": o, "panic": true}));
                if std::thread::panicking() {
                    return; // never start a second panic while unwinding
                }
                std::panic::panic_any(Injected);
            }
        }
    }
}

unsafe impl<P: Pad> Trace for Node<P> {
    fn trace(&self, ctx: &mut Context<'_>) {
        let o = self.id;
        let ok = self.canary.get() == CANARY ^ o;
        emit(json!({"e": "cb", "cb": "trace", "o": o, "it": is_tracing(), "ok": ok}));
        if !ok {
            emit(json!({"e": "cbx", "cb": "trace", "o": o, "panic": false}));
            return;
        }
        let limit = director::on_trace(o);
        #[cfg(feature = "weak")]
        if limit.is_none() && director::on_trace_probe(o) {
            // A Trace impl that clones (and drops) one of its Weak fields: nothing in the Trace contract forbids it.
            // Debug builds refuse it with a panic ("Cannot clone while tracing!"), release builds allow it.
            let w = self.wslots.try_borrow().ok().and_then(|ws| ws.iter().find_map(|s| s.inner.as_ref().map(|w| w as *const weak::Weak<Node<P>>)));
            if let Some(wp) = w {
                emit(json!({"e": "probe", "what": "clonew-in-trace", "o": o}));
                let r = std::panic::catch_unwind(std::panic::AssertUnwindSafe(|| unsafe { (*wp).clone() }));
                match r {
                    Ok(c) => drop(c),
                    Err(pl) => {
                        emit(json!({"e": "cbx", "cb": "trace", "o": o, "panic": true, "j": 0}));
                        std::panic::resume_unwind(pl);
                    }
                }
            }
        }
        let mut reported = 0usize;
        {
            // the collector's own code (CcBox::trace) may panic under this callback: close the callback in the log then
            struct Unwound(u32, bool);
            impl Drop for Unwound {
                fn drop(&mut self) {
                    // (a collection can run while the thread is already unwinding from an earlier panic: only a panic that
                    // started under this callback counts)
                    if std::thread::panicking() && !self.1 {
                        emit(json!({"e": "cbx", "cb": "trace", "o": self.0, "panic": true, "crate": true}));
                    }
                }
            }
            let _unwound = Unwound(o, std::thread::panicking());
            let slots = self.slots.borrow();
            for s in slots.iter() {
                if let Some(cc) = &s.inner {
                    if let Some(l) = limit {
                        if reported >= l {
                            break;
                        }
                    }
                    cc.trace(ctx);
                    reported += 1;
                }
            }
        }
        if let Some(l) = limit {
            emit(json!({"e": "cbx", "cb": "trace", "o": o, "panic": true, "j": l.min(reported)}));
            std::panic::panic_any(Injected);
        }
        emit(json!({"e": "cbx", "cb": "trace", "o": o, "panic": false}));
    }
}

impl<P: Pad> Finalize for Node<P> {
    fn finalize(&self) {
        callback(CbKind::Finalize, self);
    }
}

impl<P: Pad> Drop for Node<P> {
    fn drop(&mut self) {
        callback(CbKind::Drop, &*self);
    }
}

/// Body of the closure given to Cc::new_cyclic.
#[cfg(feature = "weak")]
pub fn closure_body<P: Pad>(o: u32, ns: u32, np: u32, nw: u32, wk: &weak::Weak<Node<P>>) -> Node<P> {
    emit(json!({"e": "cb", "cb": "closure", "o": o, "it": is_tracing(), "ok": true}));
    world::push_ctx(o, std::ptr::null(), CbKind::Closure);
    let prev = world::PROVIDED.with(|c| c.replace(wk as *const weak::Weak<Node<P>> as *const ()));
    struct G(*const (), bool, u32);
    impl Drop for G {
        fn drop(&mut self) {
            world::PROVIDED.with(|c| c.set(self.0));
            world::pop_ctx();
            if !self.1 {
                emit(json!({"e": "cbx", "cb": "closure", "o": self.2, "panic": true}));
            }
        }
    }
    let mut g = G(prev, false, o);
    loop {
        match director::next_in_cb::<P>(CbKind::Closure, o) {
            Decision::Do(op) => world::exec::<P>(&op),
            Decision::Return => break,
            Decision::Panic => {
                g.1 = true;
                emit(json!({"e": "cbx", "cb": "closure", "o": o, "panic": true}));
                std::panic::panic_any(Injected);
            }
        }
    }
    let sw = nw > 0 && director::closure_self_weak(o);
    let node = Node::<P>::new(o, ns, np, nw);
    if sw {
        let mut ws = node.wslots.borrow_mut();
        ws[0].target = o;
        ws[0].inner = Some(wk.clone());
    }
    g.1 = true;
    emit(json!({"e": "cbx", "cb": "closure", "o": o, "panic": false, "sw": sw}));
    node
}
