//! Layout grid (C03, C13, C20): payloads of many sizes and alignments, including a zero-sized
//! and over-aligned ones, driven through a fixed scenario and recorded in the common event
//! vocabulary so that the contract monitor judges allocation layouts and addresses.
//!
//! Pointer tables (C20): comparison / hashing / formatting of `Cc<T>` against plain `T` and
//! against the table enumerated by TLC from spec/PtrSpec.tla.

use rust_cc::*;
use serde_json::{json, Map, Value};
use std::cell::Cell;
use std::collections::hash_map::DefaultHasher;
use std::hash::{Hash, Hasher};

use crate::alloc;
use crate::rec::{emit, CUR_META, CUR_NEW};

pub trait Payload: Default + 'static {
    const NAME: &'static str;
}

macro_rules! pads {
    ($($name:ident, $align:literal, $n:literal;)*) => {
        $(
            #[repr(align($align))]
            pub struct $name(pub [u8; $n]);
            impl Default for $name { fn default() -> Self { $name([0xAB; $n]) } }
            impl Payload for $name { const NAME: &'static str = stringify!($name); }
        )*
        pub fn run_all(out: &mut Vec<String>) -> u64 {
            let mut n = 0;
            $( n += 1; out.extend(crate::on_fresh_thread(|| run_one::<$name>())); )*
            n += 1;
            out.extend(crate::on_fresh_thread(|| run_one::<Zst>()));
            n
        }
    };
}

#[derive(Default)]
pub struct Zst;
impl Payload for Zst {
    const NAME: &'static str = "Zst";
}

pads! {
    A1S1, 1, 1;
    A1S7, 1, 7;
    A2S24, 2, 24;
    A8S8, 8, 8;
    A8S1000, 8, 1000;
    A16S16, 16, 16;
    A16S4096, 16, 4096;
    A64S64, 64, 64;
    A64S1024, 64, 1024;
    A128S128, 128, 128;
    A512S512, 512, 512;
    A4096S4096, 4096, 4096;
}

/// A leaf payload: `id` lives outside the value when the payload is zero sized.
pub struct Leaf<P: Payload> {
    pub pad: P,
}

thread_local! {
    /// id of the leaf being created / dropped (a zero-sized payload cannot carry it)
    static CUR_LEAF: Cell<u32> = const { Cell::new(0) };
}

unsafe impl<P: Payload> Trace for Leaf<P> {
    fn trace(&self, _: &mut Context<'_>) {}
}
impl<P: Payload> Finalize for Leaf<P> {
    fn finalize(&self) {
        let o = CUR_LEAF.with(|c| c.get());
        emit(json!({"e": "cb", "cb": "finalize", "o": o, "it": state::is_tracing().unwrap_or(false), "ok": true}));
        emit(json!({"e": "cbx", "cb": "finalize", "o": o, "panic": false}));
    }
}
impl<P: Payload> Drop for Leaf<P> {
    fn drop(&mut self) {
        let o = CUR_LEAF.with(|c| c.get());
        emit(json!({"e": "cb", "cb": "drop", "o": o, "it": state::is_tracing().unwrap_or(false), "ok": true}));
        emit(json!({"e": "cbx", "cb": "drop", "o": o, "panic": false}));
    }
}

struct Held<P: Payload> {
    id: u32,
    /// the value was moved out by try_unwrap and is held by the program
    moved: bool,
    ccs: Vec<Cc<Leaf<P>>>,
    #[cfg(feature = "weak")]
    weaks: Vec<weak::Weak<Leaf<P>>>,
}

fn obs<P: Payload>(held: &[&Held<P>]) -> Map<String, Value> {
    let mut m = Map::new();
    m.insert("x".into(), json!(state::executions_count().unwrap() as i64));
    m.insert("by".into(), json!(state::allocated_bytes().unwrap() as i64));
    m.insert("bf".into(), json!(state::buffered_objects_count().unwrap() as i64));
    m.insert("it".into(), json!(state::is_tracing().unwrap()));
    let (mut sc, mut ad, mut wk, mut rw) = (Vec::new(), Vec::new(), Vec::new(), Vec::new());
    for h in held {
        if let Some(cc) = h.ccs.first() {
            #[cfg(feature = "weak")]
            let wc = cc.weak_count() as i64;
            #[cfg(not(feature = "weak"))]
            let wc = 0i64;
            #[cfg(feature = "fin")]
            let fin = cc.already_finalized();
            #[cfg(not(feature = "fin"))]
            let fin = false;
            sc.push(json!([h.id, cc.strong_count(), wc, fin]));
            let base = rust_cc::verif_hooks::box_addr(cc);
            let a1 = &**cc as *const Leaf<P> as usize;
            let a2 = <Cc<Leaf<P>> as AsRef<Leaf<P>>>::as_ref(cc) as *const Leaf<P> as usize;
            let a3 = <Cc<Leaf<P>> as std::borrow::Borrow<Leaf<P>>>::borrow(cc) as *const Leaf<P> as usize;
            let same = a1 == a2 && a2 == a3 && h.ccs.iter().all(|c| (&**c as *const Leaf<P> as usize) == a1) && h.ccs.iter().all(|c| Cc::ptr_eq(c, cc));
            let e = alloc::lookup(base);
            let (blk, live) = e.map(|e| (e.blk as i64, e.live)).unwrap_or((0, false));
            // the payload must lie inside its block
            let inside = e.map_or(false, |e| a1 >= e.ptr && a1 + std::mem::size_of::<Leaf<P>>() <= e.ptr + e.size as usize);
            ad.push(json!([h.id, blk, (a1 as i64) - (base as i64), (a1 % std::mem::align_of::<Leaf<P>>()) as i64, same && inside, live]));
            rw.push(json!([h.id, true]));
        }
        if h.moved {
            rw.push(json!([h.id, true]));
        }
        #[cfg(feature = "weak")]
        if let Some(w) = h.weaks.first() {
            wk.push(json!([h.id, w.strong_count(), w.weak_count()]));
        }
    }
    m.insert("sc".into(), Value::Array(sc));
    m.insert("ad".into(), Value::Array(ad));
    m.insert("wk".into(), Value::Array(wk));
    m.insert("rw".into(), Value::Array(rw));
    let (sz, addrs, lk) = rust_cc::verif_hooks::buffer_walk().unwrap();
    m.insert("walk".into(), Value::Array(addrs.iter().map(|a| json!(alloc::lookup(*a).map(|e| e.oid as i64).unwrap_or(0))).collect()));
    m.insert("wsz".into(), json!(sz));
    m.insert("lk".into(), json!(lk));
    m
}

fn op<P: Payload, R>(name: &str, o: u32, held: &[&Held<P>], extra: Value, f: impl FnOnce() -> R) -> R {
    emit(json!({"e": "call", "op": name, "o": o, "x": state::executions_count().unwrap() as i64, "by": state::allocated_bytes().unwrap() as i64, "bf": state::buffered_objects_count().unwrap() as i64}));
    CUR_LEAF.with(|c| c.set(o));
    let r = f();
    let _ = held;
    let _ = extra;
    r
}

fn ret<P: Payload>(name: &str, held: &[&Held<P>], extra: Value) {
    let mut m = Map::new();
    m.insert("e".into(), json!("ret"));
    m.insert("op".into(), json!(name));
    m.insert("panic".into(), json!(""));
    m.insert("res".into(), json!(""));
    if let Value::Object(x) = extra {
        for (k, v) in x {
            m.insert(k, v);
        }
    }
    for (k, v) in obs::<P>(held) {
        m.insert(k, v);
    }
    emit(Value::Object(m));
}

pub fn run_one<P: Payload>() -> Vec<String> {
    #[cfg(feature = "auto")]
    let _ = rust_cc::config::config(|c| c.set_auto_collect(false));
    let mut reset = crate::build_flags();
    {
        let m = reset.as_object_mut().unwrap();
        m.insert("e".into(), json!("reset"));
        m.insert("auto".into(), json!(false));
        m.insert("ns".into(), json!(0));
        m.insert("np".into(), json!(0));
        m.insert("nw".into(), json!(0));
        m.insert("run".into(), json!(0));
        m.insert("pad".into(), json!(P::NAME));
        m.insert("psize".into(), json!(std::mem::size_of::<Leaf<P>>()));
        m.insert("palign".into(), json!(std::mem::align_of::<Leaf<P>>()));
    }
    emit(reset);
    // --- object 1: new, clone, drop, drop (reference-count path)
    let mut h1 = Held::<P> { id: 1, moved: false, ccs: vec![], #[cfg(feature = "weak")] weaks: vec![] };
    CUR_NEW.with(|c| c.set(1));
    let c = op::<P, _>("new", 1, &[], json!({}), || Cc::new(Leaf::<P> { pad: P::default() }));
    h1.ccs.push(c);
    ret::<P>("new", &[&h1], json!({}));
    let c = op::<P, _>("clone", 1, &[&h1], json!({}), || h1.ccs[0].clone());
    h1.ccs.push(c);
    ret::<P>("clone", &[&h1], json!({}));
    let c = h1.ccs.pop().unwrap();
    op::<P, _>("drop", 1, &[&h1], json!({}), || drop(c));
    ret::<P>("drop", &[&h1], json!({}));
    op::<P, _>("collect", 0, &[&h1], json!({}), collect_cycles);
    ret::<P>("collect", &[&h1], json!({}));
    let c = h1.ccs.pop().unwrap();
    op::<P, _>("drop", 1, &[&h1], json!({}), || drop(c));
    ret::<P>("drop", &[&h1], json!({}));
    // --- object 2: try_unwrap with a side record and a Weak alive
    let mut h2 = Held::<P> { id: 2, moved: false, ccs: vec![], #[cfg(feature = "weak")] weaks: vec![] };
    CUR_NEW.with(|c| c.set(2));
    CUR_META.with(|c| c.set(2));
    let c = op::<P, _>("new", 2, &[], json!({}), || Cc::new(Leaf::<P> { pad: P::default() }));
    h2.ccs.push(c);
    ret::<P>("new", &[&h2], json!({}));
    #[cfg(feature = "weak")]
    {
        let w = op::<P, _>("downgrade", 2, &[&h2], json!({}), || h2.ccs[0].downgrade());
        h2.weaks.push(w);
        ret::<P>("downgrade", &[&h2], json!({}));
    }
    let c = h2.ccs.pop().unwrap();
    let r = op::<P, _>("unwrap", 2, &[&h2], json!({}), || c.try_unwrap());
    match r {
        Ok(v) => {
            h2.moved = true;
            ret::<P>("unwrap", &[&h2], json!({"res": "ok", "vok": true}));
            h2.moved = false;
            op::<P, _>("dropval", 2, &[&h2], json!({}), || drop(v));
            ret::<P>("dropval", &[&h2], json!({}));
        }
        Err(c) => {
            h2.ccs.push(c);
            ret::<P>("unwrap", &[&h2], json!({"res": "err", "same": true}));
        }
    }
    #[cfg(feature = "weak")]
    {
        let up = op::<P, _>("upgrade", 2, &[&h2], json!({}), || h2.weaks[0].upgrade());
        let some = up.is_some();
        if let Some(c) = up {
            h2.ccs.push(c);
        }
        ret::<P>("upgrade", &[&h2], json!({"res": if some { "some" } else { "none" }, "vok": true}));
        let w = h2.weaks.pop().unwrap();
        op::<P, _>("dropw", 2, &[&h2], json!({}), || drop(w));
        ret::<P>("dropw", &[&h2], json!({}));
    }
    // --- object 3: the value goes first, the Weak later (side record outlives the box)
    #[cfg(feature = "weak")]
    {
        let mut h3 = Held::<P> { id: 3, moved: false, ccs: vec![], weaks: vec![] };
        CUR_NEW.with(|c| c.set(3));
        CUR_META.with(|c| c.set(3));
        let c = op::<P, _>("new", 3, &[], json!({}), || Cc::new(Leaf::<P> { pad: P::default() }));
        h3.ccs.push(c);
        ret::<P>("new", &[&h3], json!({}));
        let w = op::<P, _>("downgrade", 3, &[&h3], json!({}), || h3.ccs[0].downgrade());
        h3.weaks.push(w);
        ret::<P>("downgrade", &[&h3], json!({}));
        let c = h3.ccs.pop().unwrap();
        op::<P, _>("drop", 3, &[&h3], json!({}), || drop(c));
        ret::<P>("drop", &[&h3], json!({}));
        let w = h3.weaks.pop().unwrap();
        op::<P, _>("dropw", 3, &[&h3], json!({}), || drop(w));
        ret::<P>("dropw", &[&h3], json!({}));
    }
    crate::rec::take_output()
}

// ------------------------------------------------------------------ pointer tables (C20)

fn h<T: Hash>(t: &T) -> u64 {
    let mut s = DefaultHasher::new();
    t.hash(&mut s);
    s.finish()
}

fn ord_name(o: Option<std::cmp::Ordering>) -> &'static str {
    match o {
        Some(std::cmp::Ordering::Less) => "lt",
        Some(std::cmp::Ordering::Equal) => "eq",
        Some(std::cmp::Ordering::Greater) => "gt",
        None => "none",
    }
}

/// Evaluates every comparison method on `Cc<T>` and on plain `T` for one pair.
fn row<T: Trace + PartialOrd + PartialEq + std::fmt::Debug + Clone + 'static>(a: &T, b: &T) -> (Value, Value) {
    let (ca, cb) = (Cc::new(a.clone()), Cc::new(b.clone()));
    let plain = json!({"eq": a == b, "ne": a != b, "lt": a < b, "le": a <= b, "gt": a > b, "ge": a >= b, "pcmp": ord_name(a.partial_cmp(b)), "dbg": format!("{:?}", a)});
    let mut viacc = json!({"eq": ca == cb, "ne": ca != cb, "lt": ca < cb, "le": ca <= cb, "gt": ca > cb, "ge": ca >= cb, "pcmp": ord_name(ca.partial_cmp(&cb)), "dbg": format!("{:?}", ca)});
    // two handles to the SAME allocation must also compare exactly like the value with itself
    let c2 = ca.clone();
    let same = json!({"eq": ca == c2, "ne": ca != c2, "lt": ca < c2, "le": ca <= c2, "gt": ca > c2, "ge": ca >= c2, "pcmp": ord_name(ca.partial_cmp(&c2))});
    let plain_self = json!({"eq": a == a, "ne": a != a, "lt": a < a, "le": a <= a, "gt": a > a, "ge": a >= a, "pcmp": ord_name(a.partial_cmp(a))});
    viacc["same_alloc_ok"] = json!(same == plain_self);
    (plain, viacc)
}

/// `table`: rows [dom, i, j, expected{eq,ne,lt,le,gt,ge,pcmp}] over abstract value indices produced by TLC.
pub fn ptr_tables(table: &[Value]) -> Value {
    #[cfg(feature = "auto")]
    let _ = rust_cc::config::config(|c| c.set_auto_collect(false));
    // concrete carriers of the abstract domains: "tot" = totally ordered 1..5, "par" = 1..4 plus an incomparable element 5
    let ints: Vec<i32> = vec![-7, 0, 1, 2, i32::MAX];
    let strs: Vec<String> = vec!["".into(), "a".into(), "ab".into(), "b".into(), "\u{00e9}".into()];
    let flts: Vec<f64> = vec![-1.5, 0.0, 1.0, f64::INFINITY, f64::NAN];
    let (mut rows, mut bad) = (0u64, Vec::new());
    for r in table {
        let dom = r[0].as_str().unwrap_or("");
        let (i, j) = (r[1].as_u64().unwrap() as usize - 1, r[2].as_u64().unwrap() as usize - 1);
        let exp = &r[3];
        let mut check = |name: &str, plain: Value, viacc: Value| {
            rows += 1;
            for k in ["eq", "ne", "lt", "le", "gt", "ge", "pcmp"] {
                if viacc[k] != plain[k] || viacc[k] != exp[k] {
                    if bad.len() < 10 {
                        bad.push(json!({"type": name, "i": i + 1, "j": j + 1, "method": k, "cc": viacc[k], "plain": plain[k], "spec": exp[k]}));
                    }
                }
            }
            if viacc["same_alloc_ok"] != true && bad.len() < 10 {
                bad.push(json!({"type": name, "i": i + 1, "method": "comparison of two handles to the same allocation differs from comparing the value with itself"}));
            }
            if viacc["dbg"] != plain["dbg"] && bad.len() < 10 {
                bad.push(json!({"type": name, "i": i + 1, "method": "Debug", "cc": viacc["dbg"], "plain": plain["dbg"]}));
            }
        };
        if dom == "tot" {
            let (p, c) = row(&ints[i], &ints[j]);
            check("i32", p, c);
            let (p, c) = row(&strs[i], &strs[j]);
            check("String", p, c);
            // total order, hashing, Display
            let (ca, cb) = (Cc::new(ints[i]), Cc::new(ints[j]));
            let ok = ord_name(Some(ca.cmp(&cb))) == exp["pcmp"].as_str().unwrap_or("")
                && (h(&ca) == h(&ints[i]))
                && ((h(&ca) == h(&cb)) == (h(&ints[i]) == h(&ints[j])))
                && format!("{}", ca) == format!("{}", ints[i])
                && format!("{}", Cc::new(strs[i].clone())) == strs[i]
                && h(&Cc::new(strs[i].clone())) == h(&strs[i]);
            rows += 1;
            if !ok && bad.len() < 10 {
                bad.push(json!({"type": "i32/String", "i": i + 1, "j": j + 1, "method": "cmp/hash/Display"}));
            }
        } else {
            let (p, c) = row(&flts[i], &flts[j]);
            check("f64", p, c);
        }
    }
    // Debug / Display behave exactly as on T for every formatter option (alternate, width, fill, alignment, sign, zero padding, precision)
    {
        #[derive(Debug, Clone)]
        #[allow(dead_code)]
        struct Inner {
            id: i32,
            name: String,
        }
        unsafe impl Trace for Inner {
            fn trace(&self, _: &mut rust_cc::Context<'_>) {}
        }
        impl rust_cc::Finalize for Inner {}
        let inner = Inner { id: 7, name: "x".into() };
        let (ci, cf, cs, cn) = (Cc::new(42i32), Cc::new(2.5f64), Cc::new("ab".to_string()), Cc::new(inner.clone()));
        let pairs: Vec<(&str, String, String)> = vec![
            ("{:#?} struct", format!("{:#?}", cn), format!("{:#?}", inner)),
            ("{:?} struct", format!("{:?}", cn), format!("{:?}", inner)),
            ("{:>8}", format!("{:>8}", ci), format!("{:>8}", 42i32)),
            ("{:*^9}", format!("{:*^9}", ci), format!("{:*^9}", 42i32)),
            ("{:+}", format!("{:+}", ci), format!("{:+}", 42i32)),
            ("{:05}", format!("{:05}", ci), format!("{:05}", 42i32)),
            ("{:#x?}", format!("{:#x?}", ci), format!("{:#x?}", 42i32)),
            ("{:6?}", format!("{:6?}", ci), format!("{:6?}", 42i32)),
            ("{:.2}", format!("{:.2}", cf), format!("{:.2}", 2.5f64)),
            ("{:8.3}", format!("{:8.3}", cf), format!("{:8.3}", 2.5f64)),
            ("{:<5}|", format!("{:<5}|", cs), format!("{:<5}|", "ab")),
            ("{:?} string", format!("{:?}", cs), format!("{:?}", "ab")),
        ];
        for (spec, got, exp) in pairs {
            rows += 1;
            if got != exp && bad.len() < 10 {
                bad.push(json!({"type": "format", "method": spec, "cc": got, "plain": exp}));
            }
        }
    }
    // Default
    let d: Cc<i32> = Default::default();
    let ds: Cc<String> = Default::default();
    rows += 1;
    if *d != i32::default() || *ds != String::default() {
        bad.push(json!({"method": "Default"}));
    }
    // ptr_eq: true exactly for pointers to the same allocation
    let a = Cc::new(5i32);
    let b = Cc::new(5i32);
    let a2 = a.clone();
    rows += 1;
    if !(Cc::ptr_eq(&a, &a2) && !Cc::ptr_eq(&a, &b) && a == b) {
        bad.push(json!({"method": "ptr_eq"}));
    }
    #[cfg(feature = "weak")]
    {
        let wa = a.downgrade();
        let wa2 = wa.clone();
        let wb = b.downgrade();
        let n1: weak::Weak<i32> = weak::Weak::new();
        let n2: weak::Weak<i32> = Default::default();
        rows += 1;
        if !(weak::Weak::ptr_eq(&wa, &wa2) && !weak::Weak::ptr_eq(&wa, &wb) && weak::Weak::ptr_eq(&n1, &n2) && !weak::Weak::ptr_eq(&n1, &wa) && n2.upgrade().is_none()) {
            bad.push(json!({"method": "Weak::ptr_eq / Weak::default"}));
        }
    }
    json!({"rows": rows, "bad": bad})
}

// ------------------------------------------------------------------ policy grid (C15)

macro_rules! blob_new {
    ($n:expr, $($p:literal),*) => {
        match $n {
            $( $p => Box::new(Cc::new([0u64; $p])) as Box<dyn std::any::Any>, )*
            _ => unreachable!(),
        }
    };
}

/// Allocates managed boxes whose sizes add up to exactly `bytes` (a multiple of 8, 0 or >= 48).
/// A box holding `[u64; N]` takes 40 + 8 N bytes; N is a power of two.
fn alloc_exact(bytes: usize, keep: &mut Vec<Box<dyn std::any::Any>>) -> bool {
    if bytes == 0 {
        return true;
    }
    let p = bytes / 8;
    for c in 1..=64usize {
        if p < 6 * c {
            break;
        }
        let s = p - 5 * c; // sum of the N_i
        if (s.count_ones() as usize) <= c && c <= s {
            // split s into exactly c powers of two (each <= 2048)
            let mut parts: Vec<usize> = (0..usize::BITS).filter(|b| s >> b & 1 == 1).map(|b| 1usize << b).collect();
            while parts.len() < c {
                parts.sort_unstable();
                let big = parts.pop().unwrap();
                if big == 1 {
                    return false;
                }
                parts.push(big / 2);
                parts.push(big / 2);
            }
            if parts.iter().any(|x| *x > 2048) {
                continue;
            }
            for n in parts {
                keep.push(blob_new!(n, 1, 2, 4, 8, 16, 32, 64, 128, 256, 512, 1024, 2048));
            }
            return true;
        }
    }
    false
}

#[cfg(feature = "auto")]
fn policy_row(r: &Value) -> Option<Value> {
    use rust_cc::config::config;
    let (thr, b, pn, pd, exp) = (r[0].as_u64()? as usize, r[1].as_u64()? as usize, r[2].as_u64()?, r[3].as_u64()?, r[4].as_u64()? as usize);
    config(|c| {
        c.set_auto_collect(false);
        c.set_adjustment_percent(0.0);
    })
    .ok()?;
    let mut keep: Vec<Box<dyn std::any::Any>> = Vec::new();
    // ramp the threshold up to `thr`: with allocated bytes in [t, 2t) a collection doubles t once
    let mut cur = rust_cc::verif_hooks::bytes_threshold()?;
    while cur < thr {
        keep.clear();
        let want = (cur + 7) / 8 * 8 + if cur % 8 == 0 { 0 } else { 0 };
        let want = want.max(48);
        if !alloc_exact(want, &mut keep) || state::allocated_bytes().ok()? != want {
            return Some(json!({"row": r, "problem": "harness could not reach the ramp size", "want": want}));
        }
        collect_cycles();
        let now = rust_cc::verif_hooks::bytes_threshold()?;
        if now != 2 * cur {
            return Some(json!({"row": r, "problem": "ramp: threshold after a collection", "bytes": want, "before": cur, "after": now, "expected": 2 * cur}));
        }
        cur = now;
    }
    keep.clear();
    if !alloc_exact(b, &mut keep) {
        return Some(json!({"skip": true})); // not a sum of available box sizes
    }
    if state::allocated_bytes().ok()? != b {
        return Some(json!({"row": r, "problem": "allocated_bytes differs from the boxes just created", "got": state::allocated_bytes().ok()}));
    }
    config(|c| c.set_adjustment_percent(pn as f64 / pd as f64)).ok()?;
    collect_cycles();
    let got = rust_cc::verif_hooks::bytes_threshold()?;
    if got != exp {
        return Some(json!({"row": r, "problem": "threshold after collect_cycles() differs from Config::adjust as specified", "got": got, "expected": exp}));
    }
    // trigger boundary: creating a Cc starts a collection iff allocated bytes exceed the threshold
    if got % 8 == 0 && got >= b + 48 {
        let x0 = state::executions_count().ok()?;
        if alloc_exact(got - b, &mut keep) && state::allocated_bytes().ok()? == got {
            config(|c| c.set_auto_collect(true)).ok()?;
            let a = Cc::new([0u64; 1]); // bytes == threshold: no collection
            let x1 = state::executions_count().ok()?;
            let b2 = Cc::new([0u64; 1]); // bytes > threshold: collection
            let x2 = state::executions_count().ok()?;
            config(|c| c.set_auto_collect(false)).ok()?;
            drop(a);
            drop(b2);
            if x1 != x0 || x2 != x1 + 1 {
                return Some(json!({"row": r, "problem": "trigger boundary: collections started at bytes == threshold / bytes > threshold", "at_equal": x1 - x0, "above": x2 - x1}));
            }
        }
    }
    None
}

#[cfg(feature = "auto")]
pub fn policy_grid(rows: &[Value]) -> Value {
    let mut bad = Vec::new();
    let mut n = 0u64;
    let mut skipped = 0u64;
    for r in rows {
        let r2 = r.clone();
        n += 1;
        if let Some(b) = crate::on_fresh_thread(move || policy_row(&r2)) {
            if b["skip"] == true {
                skipped += 1;
            } else if bad.len() < 12 {
                bad.push(b);
            }
        }
    }
    json!({"rows": n, "skipped": skipped, "bad": bad})
}

#[cfg(not(feature = "auto"))]
pub fn policy_grid(_rows: &[Value]) -> Value {
    json!({"rows": 0, "bad": []})
}

// ---------------------------------------------------------------- saturation through traced owners (spec/SatGraph.tla)

struct SatLeaf(u64);
unsafe impl Trace for SatLeaf {
    fn trace(&self, _: &mut Context<'_>) {}
}
impl Finalize for SatLeaf {}

struct SatHolder {
    v: std::cell::RefCell<Vec<Cc<SatLeaf>>>,
}
unsafe impl Trace for SatHolder {
    fn trace(&self, ctx: &mut Context<'_>) {
        self.v.trace(ctx);
    }
}
impl Finalize for SatHolder {}

/// `rows`: [{n, coll, q, wsc, res, after}] printed by TLC from SatGraph.tla. All the `n` Ccs to one object are owned by
/// a traced container; an optional collection runs over the live container; then one query.
pub fn sat_graph(rows: &[Value]) -> Value {
    #[cfg(feature = "auto")]
    let _ = rust_cc::config::config(|c| c.set_auto_collect(false));
    let mut bad: Vec<Value> = Vec::new();
    let mut done = 0u32;
    let mut skipped = 0u32;
    for r in rows {
        let n = r["n"].as_u64().unwrap() as usize;
        let coll = r["coll"].as_bool().unwrap();
        let q = r["q"].as_str().unwrap();
        if !cfg!(feature = "weak") && q != "clone" {
            skipped += 1;
            continue;
        }
        let base = rust_cc::state::allocated_bytes().unwrap_or(0);
        let x = Cc::new(SatLeaf(0xC0FFEE));
        #[cfg(feature = "weak")]
        let w = x.downgrade();
        let holder = Cc::new(SatHolder { v: std::cell::RefCell::new(Vec::with_capacity(n)) });
        {
            let mut v = holder.v.borrow_mut();
            for _ in 0..n - 1 {
                v.push(x.clone());
            }
            v.push(x); // the program keeps no Cc to the object: every one of the n pointers is traced
        }
        if coll {
            // buffer the (live) container and let a collection count every pointer it owns
            let h2 = holder.clone();
            drop(h2);
            collect_cycles();
        }
        let count = |h: &Cc<SatHolder>| h.v.borrow()[0].strong_count() as u64;
        let mut note = |what: &str, got: Value, exp: Value| {
            if got != exp && bad.len() < 10 {
                bad.push(json!({"n": n, "coll": coll, "q": q, "what": what, "got": got, "expected": exp}));
            }
        };
        #[cfg(feature = "weak")]
        note("Weak::strong_count before the query", json!(w.strong_count()), r["wsc"].clone());
        note("strong_count before the query", json!(count(&holder)), r["n"].clone());
        let mut extra: Option<Cc<SatLeaf>> = None;
        let res: &str = match q {
            "wsc" => "value",
            #[cfg(feature = "weak")]
            "upgrade" => match std::panic::catch_unwind(std::panic::AssertUnwindSafe(|| w.upgrade())) {
                Ok(Some(c)) => {
                    extra = Some(c);
                    "ok"
                }
                Ok(None) => "none",
                Err(p) => {
                    if crate::world::classify(&*p) == "max" {
                        "panic-max"
                    } else {
                        "panic-other"
                    }
                }
            },
            "clone" => {
                let first = holder.v.borrow()[0].clone_checked();
                match first {
                    Ok(c) => {
                        extra = Some(c);
                        "ok"
                    }
                    Err(s) => s,
                }
            }
            _ => "skip",
        };
        note("result of the query", json!(res), r["res"].clone());
        note("strong_count after the query", json!(count(&holder)), r["after"].clone());
        #[cfg(feature = "weak")]
        note("Weak::strong_count after the query", json!(w.strong_count()), r["after"].clone());
        if let Some(c) = &extra {
            note("value reached through the new pointer", json!(c.0), json!(0xC0FFEEu64));
        }
        drop(extra);
        drop(holder);
        collect_cycles();
        #[cfg(feature = "weak")]
        {
            note("Weak::strong_count after everything was released", json!(w.strong_count()), json!(0));
            drop(w);
        }
        let now = rust_cc::state::allocated_bytes().unwrap_or(0);
        note("allocated_bytes after everything was released", json!(now), json!(base));
        done += 1;
    }
    json!({"rows": done, "skipped": skipped, "bad": bad})
}

trait CloneChecked: Sized {
    fn clone_checked(&self) -> Result<Self, &'static str>;
}
impl CloneChecked for Cc<SatLeaf> {
    fn clone_checked(&self) -> Result<Self, &'static str> {
        match std::panic::catch_unwind(std::panic::AssertUnwindSafe(|| self.clone())) {
            Ok(c) => Ok(c),
            Err(p) => Err(if crate::world::classify(&*p) == "max" { "panic-max" } else { "panic-other" }),
        }
    }
}
