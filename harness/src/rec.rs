//! Event recorder and (in replay mode) lock-step comparison with the model's prediction.

use serde_json::{json, Value};
use std::cell::{Cell, RefCell};

use crate::alloc;

thread_local! {
    static OUT: RefCell<Vec<String>> = const { RefCell::new(Vec::new()) };
    /// Expected events (replay mode) and cursor.
    static SCRIPT: RefCell<Vec<Value>> = const { RefCell::new(Vec::new()) };
    static CUR: Cell<usize> = const { Cell::new(0) };
    static DRIFT: RefCell<Option<(usize, String)>> = const { RefCell::new(None) };
    static REPLAY: Cell<bool> = const { Cell::new(false) };
    /// Object id that the next box allocation belongs to.
    pub static CUR_NEW: Cell<u32> = const { Cell::new(0) };
    /// Object id that the next side-record allocation belongs to.
    pub static CUR_META: Cell<u32> = const { Cell::new(0) };
    pub static DEPTH: Cell<u32> = const { Cell::new(0) };
    static NEVENTS: Cell<usize> = const { Cell::new(0) };
}

/// Threads mode: events go to a process-global sink keyed by a per-thread id kept in a
/// destructor-less thread-local, so that they can still be recorded while the thread's
/// thread-locals are being destroyed.
pub static SINK: std::sync::Mutex<Vec<(u64, String)>> = std::sync::Mutex::new(Vec::new());
thread_local! {
    pub static SINK_ID: Cell<u64> = const { Cell::new(0) };
}

pub fn take_sink() -> Vec<(u64, String)> {
    std::mem::take(&mut *SINK.lock().unwrap())
}

pub fn install_observer() {
    rust_cc::verif_hooks::set_alloc_observer(observer);
}

thread_local! {
    /// owners' map ids (100 + owner) that currently have a live map box
    static LIVE_MAPS: RefCell<Vec<u32>> = const { RefCell::new(Vec::new()) };
}

thread_local! {
    /// allocations made while this is set are not tracked and produce no events (thread teardown probes)
    pub static MUTE: Cell<bool> = const { Cell::new(false) };
}

fn observer(kind: u8, ptr: *mut u8, size: usize, align: usize) {
    if MUTE.try_with(|m| m.get()).unwrap_or(false) {
        return;
    }
    let mut oid = if kind == rust_cc::verif_hooks::KIND_BOX { CUR_NEW.try_with(|c| c.get()).unwrap_or(0) } else { CUR_META.try_with(|c| c.get()).unwrap_or(0) };
    if kind == rust_cc::verif_hooks::KIND_BOX && oid > 100 && oid < 150 {
        // Cleaner::register may allocate a second (empty, immediately dropped) map when a nested register on the
        // same Cleaner created one meanwhile: it is a different allocation, tagged as the owner's spare map
        let dup = LIVE_MAPS.try_with(|m| {
            let mut m = m.borrow_mut();
            if m.contains(&oid) {
                true
            } else {
                m.push(oid);
                false
            }
        }).unwrap_or(false);
        if dup {
            oid += 50;
        }
    }
    let e = alloc::register(kind, ptr, size, align, oid);
    let k = if kind == rust_cc::verif_hooks::KIND_BOX { "box" } else { "meta" };
    emit(json!({"e": "alloc", "k": k, "o": oid, "blk": e.blk, "size": e.size, "align": e.align}));
}

pub fn flush_frees() {
    let mut v = Vec::new();
    alloc::drain_frees(|f| v.push(f));
    for f in v {
        if f.kind == rust_cc::verif_hooks::KIND_BOX && f.oid > 100 && f.oid < 150 {
            let _ = LIVE_MAPS.try_with(|m| m.borrow_mut().retain(|x| *x != f.oid));
        }
        push(json!({"e": "dealloc", "blk": f.blk, "size": f.size, "align": f.align, "live": f.was_live}));
    }
}

/// Keys that the model cannot predict and that the lock-step comparison ignores
/// (they are judged by the monitor on the recorded trace instead).
const UNPREDICTED: [&str; 4] = ["blk", "thr", "sz", "run"];

thread_local! {
    /// real size of a node box in this build (set at the start of a run)
    pub static REAL_SZ: Cell<u64> = const { Cell::new(144) };
    /// size of a node box in the model that produced the behaviour being replayed
    pub static MODEL_SZ: Cell<u64> = const { Cell::new(144) };
}

fn scaled(exp: &Value, got: &Value) -> bool {
    match (exp.as_u64(), got.as_u64()) {
        (Some(a), Some(b)) => {
            let m = MODEL_SZ.with(|c| c.get());
            a % m == 0 && a / m * REAL_SZ.with(|c| c.get()) == b || (a % m != 0 && a == b)
        }
        _ => exp == got,
    }
}

fn same(exp: &Value, got: &Value) -> bool {
    match (exp, got) {
        (Value::Object(a), Value::Object(b)) => {
            for (k, v) in a {
                if UNPREDICTED.contains(&k.as_str()) {
                    continue;
                }
                match b.get(k) {
                    Some(w) => {
                        let ok = match k.as_str() {
                            // byte counts and box sizes are predicted in units of the model's node size
                            "by" | "size" => scaled(v, w),
                            // address observations: everything but the block number
                            "ad" => match (v.as_array(), w.as_array()) {
                                (Some(x), Some(y)) => x.len() == y.len() && x.iter().zip(y).all(|(p, q)| p[0] == q[0] && p[3] == q[3] && p[4] == q[4] && p[5] == q[5]),
                                _ => false,
                            },
                            _ => same(v, w),
                        };
                        if !ok {
                            return false;
                        }
                    }
                    None => return false,
                }
            }
            for k in b.keys() {
                if !UNPREDICTED.contains(&k.as_str()) && !a.contains_key(k) {
                    return false;
                }
            }
            true
        }
        _ => exp == got,
    }
}

fn push(ev: Value) {
    let sid = SINK_ID.try_with(|c| c.get()).unwrap_or(0);
    if sid != 0 {
        SINK.lock().unwrap().push((sid, ev.to_string()));
        return;
    }
    NEVENTS.with(|n| n.set(n.get() + 1));
    if REPLAY.with(|r| r.get()) {
        let cur = CUR.with(|c| c.get());
        let ok = SCRIPT.with(|s| {
            let s = s.borrow();
            cur < s.len() && same(&s[cur], &ev)
        });
        if !ok {
            DRIFT.with(|d| {
                let mut d = d.borrow_mut();
                if d.is_none() {
                    let exp = SCRIPT.with(|s| s.borrow().get(cur).map(|v| v.to_string()).unwrap_or_else(|| "<end>".into()));
                    *d = Some((cur, format!("expected {} got {}", exp, ev)));
                }
            });
        }
        CUR.with(|c| c.set(cur + 1));
    }
    let line = ev.to_string();
    OUT.with(|o| o.borrow_mut().push(line));
}

pub fn emit(ev: Value) {
    flush_frees();
    push(ev);
}

pub fn take_output() -> Vec<String> {
    flush_frees();
    OUT.with(|o| std::mem::take(&mut *o.borrow_mut()))
}

pub fn event_count() -> usize {
    NEVENTS.with(|n| n.get())
}

// ---------------- replay script access ----------------

pub fn load_script(events: Vec<Value>) {
    SCRIPT.with(|s| *s.borrow_mut() = events);
    CUR.with(|c| c.set(0));
    DRIFT.with(|d| *d.borrow_mut() = None);
    REPLAY.with(|r| r.set(true));
}

pub fn is_replay() -> bool {
    REPLAY.with(|r| r.get())
}

pub fn drifted() -> Option<(usize, String)> {
    DRIFT.with(|d| d.borrow().clone())
}

pub fn has_drift() -> bool {
    DRIFT.with(|d| d.borrow().is_some())
}

/// The next expected event (replay mode), if any.
pub fn peek() -> Option<Value> {
    let cur = CUR.with(|c| c.get());
    SCRIPT.with(|s| s.borrow().get(cur).cloned())
}

pub fn cursor() -> usize {
    CUR.with(|c| c.get())
}

pub fn script_len() -> usize {
    SCRIPT.with(|s| s.borrow().len())
}

/// After a drift: the depth-0 `call` events of the script that have not been reached yet.
pub fn remaining_top_level_calls() -> Vec<Value> {
    let cur = CUR.with(|c| c.get());
    SCRIPT.with(|s| {
        let s = s.borrow();
        // find the depth at the cursor by scanning the whole script
        let mut depth: i64 = 0;
        let mut out = Vec::new();
        for (i, e) in s.iter().enumerate() {
            let k = e["e"].as_str().unwrap_or("");
            if k == "call" {
                if depth == 0 && i >= cur {
                    let mut c = e.clone();
                    if let Some(m) = c.as_object_mut() {
                        m.remove("x");
                    }
                    out.push(c);
                }
                depth += 1;
            } else if k == "cb" {
                depth += 1;
            } else if k == "ret" || k == "cbx" {
                depth -= 1;
            }
        }
        out
    })
}
