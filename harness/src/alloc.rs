//! Tracking global allocator.
//!
//! Only blocks that the crate itself announces through the `rust_cc_verif`
//! allocation observer (object boxes and weak side records) are tracked. Their
//! size/alignment is taken from what the allocator saw, not from what the crate
//! says. Tracked blocks are never given back to the system: on `dealloc` they are
//! poisoned (0xDD) and quarantined, so a use-after-free reads deterministic
//! poison and addresses are never reused inside one process.

use std::alloc::{GlobalAlloc, Layout, System};
use std::cell::{Cell, UnsafeCell};
use std::sync::atomic::{AtomicBool, AtomicU32, AtomicUsize, Ordering};

pub struct Tracker;

const CAP: usize = 1 << 21;
const MASK: usize = CAP - 1;

#[derive(Copy, Clone)]
pub struct Entry {
    pub ptr: usize,
    pub size: u32,
    pub align: u32,
    pub blk: u32,
    pub oid: u32,
    pub kind: u8,
    pub live: bool,
}

const EMPTY: Entry = Entry { ptr: 0, size: 0, align: 0, blk: 0, oid: 0, kind: 0, live: false };

struct Table(UnsafeCell<[Entry; CAP]>);
unsafe impl Sync for Table {}
static TABLE: Table = Table(UnsafeCell::new([EMPTY; CAP]));
static LOCK: AtomicBool = AtomicBool::new(false);
static NEXT_BLK: AtomicU32 = AtomicU32::new(1);
static COUNT: AtomicUsize = AtomicUsize::new(0);
pub static QUARANTINE: AtomicBool = AtomicBool::new(true);

struct Guard;
fn lock() -> Guard {
    while LOCK.compare_exchange_weak(false, true, Ordering::Acquire, Ordering::Relaxed).is_err() {
        std::hint::spin_loop();
    }
    Guard
}
impl Drop for Guard {
    fn drop(&mut self) {
        LOCK.store(false, Ordering::Release);
    }
}

#[inline]
fn slot_of(ptr: usize) -> usize {
    ((ptr >> 3).wrapping_mul(0x9E37_79B9_7F4A_7C15)) >> 43 & MASK
}

/// Finds the entry for `ptr` (caller holds the lock).
unsafe fn find(ptr: usize) -> Option<&'static mut Entry> {
    let t = &mut *TABLE.0.get();
    let mut i = slot_of(ptr);
    loop {
        if t[i].ptr == 0 {
            return None;
        }
        if t[i].ptr == ptr {
            return Some(&mut t[i]);
        }
        i = (i + 1) & MASK;
    }
}

unsafe fn insert(e: Entry) {
    let t = &mut *TABLE.0.get();
    let mut i = slot_of(e.ptr);
    loop {
        if t[i].ptr == 0 || t[i].ptr == e.ptr {
            t[i] = e;
            return;
        }
        i = (i + 1) & MASK;
    }
}

#[derive(Copy, Clone)]
pub struct Freed {
    pub oid: u32,
    pub kind: u8,
    pub blk: u32,
    pub size: u32,
    pub align: u32,
    pub was_live: bool,
}

const PEND: usize = 1 << 11;
thread_local! {
    static LAST: Cell<(usize, usize, usize)> = const { Cell::new((0, 0, 0)) };
    static PENDING: UnsafeCell<[Freed; PEND]> = const { UnsafeCell::new([Freed { oid: 0, kind: 0, blk: 0, size: 0, align: 0, was_live: false }; PEND]) };
    static NPEND: Cell<usize> = const { Cell::new(0) };
    static OVERFLOW: Cell<bool> = const { Cell::new(false) };
}
// Fallback sink for frees that happen when the thread-locals are gone (thread teardown)
static LATE_FREES: AtomicUsize = AtomicUsize::new(0);
static LATE_BAD: AtomicUsize = AtomicUsize::new(0);

unsafe impl GlobalAlloc for Tracker {
    unsafe fn alloc(&self, l: Layout) -> *mut u8 {
        let p = System.alloc(l);
        let _ = LAST.try_with(|c| c.set((p as usize, l.size(), l.align())));
        p
    }

    unsafe fn dealloc(&self, p: *mut u8, l: Layout) {
        if COUNT.load(Ordering::Relaxed) != 0 {
            let hit = {
                let _g = lock();
                match find(p as usize) {
                    Some(e) => {
                        let was_live = e.live;
                        e.live = false;
                        Some(Freed { oid: e.oid, kind: e.kind, blk: e.blk, size: l.size() as u32, align: l.align() as u32, was_live })
                    }
                    None => None,
                }
            };
            if let Some(f) = hit {
                let logged = NPEND
                    .try_with(|n| {
                        let i = n.get();
                        if i < PEND {
                            let _ = PENDING.try_with(|pq| (*pq.get())[i] = f);
                            n.set(i + 1);
                        } else {
                            let _ = OVERFLOW.try_with(|o| o.set(true));
                        }
                    })
                    .is_ok();
                if !logged {
                    LATE_FREES.fetch_add(1, Ordering::SeqCst);
                    if !f.was_live {
                        LATE_BAD.fetch_add(1, Ordering::SeqCst);
                    }
                }
                if f.was_live {
                    // poison with the size the block was really allocated with
                    let real = { let _g = lock(); find(p as usize).map(|e| e.size as usize).unwrap_or(0) };
                    std::ptr::write_bytes(p, 0xDD, real);
                }
                if QUARANTINE.load(Ordering::Relaxed) {
                    return; // never reuse
                }
                if !f.was_live {
                    return; // double free: never forward it to the system allocator
                }
            }
        }
        System.dealloc(p, l)
    }
}

/// Called (through the crate's observer hook) right after the crate allocated a box / side record.
pub fn register(kind: u8, ptr: *mut u8, claimed_size: usize, claimed_align: usize, oid: u32) -> Entry {
    let (lp, ls, la) = LAST.try_with(|c| c.get()).unwrap_or((0, 0, 0));
    // Take the layout from what the allocator saw; fall back to the claim only if the last
    // allocation of this thread is not this pointer (never observed).
    let (size, align) = if lp == ptr as usize { (ls, la) } else { (claimed_size, claimed_align) };
    let blk = NEXT_BLK.fetch_add(1, Ordering::SeqCst);
    let e = Entry { ptr: ptr as usize, size: size as u32, align: align as u32, blk, oid, kind, live: true };
    {
        let _g = lock();
        unsafe { insert(e) };
    }
    COUNT.fetch_add(1, Ordering::SeqCst);
    e
}

pub fn lookup(ptr: usize) -> Option<Entry> {
    let _g = lock();
    unsafe { find(ptr).map(|e| *e) }
}

pub fn set_oid(ptr: usize, oid: u32) {
    let _g = lock();
    unsafe {
        if let Some(e) = find(ptr) {
            e.oid = oid;
        }
    }
}

/// Drains the frees recorded on this thread since the last call.
pub fn drain_frees(mut f: impl FnMut(Freed)) {
    let n = NPEND.with(|n| n.replace(0));
    for i in 0..n {
        let fr = PENDING.with(|pq| unsafe { (*pq.get())[i] });
        f(fr);
    }
}

pub fn overflowed() -> bool {
    OVERFLOW.with(|o| o.get())
}

pub fn late_frees() -> (usize, usize) {
    (LATE_FREES.load(Ordering::SeqCst), LATE_BAD.load(Ordering::SeqCst))
}
