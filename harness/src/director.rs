//! Decides what user callbacks do: scripted (replay of a TLC behaviour) or random.

use rand::rngs::StdRng;
use rand::{Rng, SeedableRng};
use serde_json::{json, Value};
use std::cell::RefCell;

use crate::node::Pad;
use crate::rec;
use crate::world::{self, with_world, World};

#[derive(Copy, Clone, PartialEq, Eq, Debug)]
pub enum CbKind {
    Trace,
    Finalize,
    Drop,
    Action,
    Closure,
}
impl CbKind {
    pub fn name(self) -> &'static str {
        match self {
            CbKind::Trace => "trace",
            CbKind::Finalize => "finalize",
            CbKind::Drop => "drop",
            CbKind::Action => "action",
            CbKind::Closure => "closure",
        }
    }
}

pub enum Decision {
    Do(Value),
    Return,
    Panic,
}

pub struct RandomCfg {
    pub max_objs: u32,
    pub fault_p: f64,
    pub max_faults: u32,
    pub cb_act_p: f64,
    pub weak: bool,
    pub fin_ops: bool,
    pub auto: bool,
    pub clean: bool,
}

pub struct RandomDir {
    pub rng: StdRng,
    pub cfg: RandomCfg,
    pub faults: u32,
    /// number of callback-made operations left for the current top-level operation
    pub cb_budget: u32,
    /// operations to run next (scenario builders, post-fault probes)
    pub queue: std::collections::VecDeque<Value>,
    /// armed by a scenario: the destructor callback after this many others panics
    pub arm_drop: Option<u32>,
    /// planted by a scenario: operations that the callbacks of one object perform first (key "<kind>:<id>")
    pub cb_plan: std::collections::HashMap<String, std::collections::VecDeque<Value>>,
}

/// Plain script: callbacks do nothing, except that the k-th callback of a kind
/// (counted per top-level operation) panics.
#[derive(Default, Clone)]
pub struct FaultPlan {
    pub trace: Option<(u32, u32)>, // (k, after j children)
    pub finalize: Option<u32>,
    pub drop: Option<u32>,
    pub seen_trace: u32,
    pub seen_finalize: u32,
    pub seen_drop: u32,
    /// operations to perform inside callbacks: key "<kind>:<id>" -> queue of operations
    pub inops: std::collections::HashMap<String, std::collections::VecDeque<Value>>,
}

pub enum Dir {
    Idle,
    Replay,
    Random(Box<RandomDir>),
    Script(FaultPlan),
}

thread_local! {
    static DIR: RefCell<Dir> = const { RefCell::new(Dir::Idle) };
}

pub fn set(d: Dir) {
    DIR.with(|x| *x.borrow_mut() = d);
}

pub fn take_inops() -> std::collections::HashMap<String, std::collections::VecDeque<Value>> {
    DIR.with(|d| match &mut *d.borrow_mut() {
        Dir::Script(p) => std::mem::take(&mut p.inops),
        _ => Default::default(),
    })
}

pub fn with_random<R>(f: impl FnOnce(&mut RandomDir) -> R) -> Option<R> {
    DIR.with(|d| match &mut *d.borrow_mut() {
        Dir::Random(r) => Some(f(r)),
        _ => None,
    })
}

fn mode() -> u8 {
    DIR.try_with(|d| match &*d.borrow() {
        Dir::Idle => 0,
        Dir::Replay => 1,
        Dir::Random(_) => 2,
        Dir::Script(_) => 3,
    })
    .unwrap_or(0)
}

/// Trace callback: `Some(j)` = panic after reporting `j` children.
pub fn on_trace(o: u32) -> Option<usize> {
    match mode() {
        1 => {
            // the `cb trace` event was just emitted; the next expected event is its `cbx`
            if rec::has_drift() {
                return None;
            }
            match rec::peek() {
                Some(e) if e["e"] == "cbx" && e["cb"] == "trace" && e["o"] == o && e["panic"] == true => Some(e["j"].as_u64().unwrap_or(0) as usize),
                _ => None,
            }
        }
        2 => with_random(|r| {
            if !std::thread::panicking() && r.faults < r.cfg.max_faults && r.rng.gen_bool(r.cfg.fault_p) {
                r.faults += 1;
                Some(r.rng.gen_range(0..3usize))
            } else {
                None
            }
        })
        .flatten(),
        3 => DIR.with(|d| match &mut *d.borrow_mut() {
            Dir::Script(p) => {
                let k = p.seen_trace;
                p.seen_trace += 1;
                match p.trace {
                    Some((kk, j)) if kk == k && !std::thread::panicking() => Some(j as usize),
                    _ => None,
                }
            }
            _ => None,
        }),
        _ => None,
    }
}

/// Does the new_cyclic closure store a clone of the provided Weak into the new value?
pub fn closure_self_weak(o: u32) -> bool {
    match mode() {
        1 => match rec::peek() {
            Some(e) if e["e"] == "cbx" && e["cb"] == "closure" && e["o"] == o => e["sw"] == true,
            _ => false,
        },
        2 => with_random(|r| r.rng.gen_bool(0.6)).unwrap_or(false),
        _ => true,
    }
}

/// Random mode only: should this trace callback try to clone one of its Weak fields?
pub fn on_trace_probe(_o: u32) -> bool {
    if mode() != 2 || std::thread::panicking() {
        return false;
    }
    with_random(|r| r.cfg.weak && r.cfg.max_faults > 0 && r.faults < r.cfg.max_faults && r.rng.gen_bool(0.04)).unwrap_or(false)
}

pub fn next_in_cb<P: Pad>(kind: CbKind, o: u32) -> Decision {
    match mode() {
        1 => {
            if rec::has_drift() {
                return Decision::Return;
            }
            match rec::peek() {
                Some(e) if e["e"] == "call" => {
                    if world::valid::<P>(&e) {
                        Decision::Do(e)
                    } else {
                        Decision::Return
                    }
                }
                Some(e) if e["e"] == "cbx" && e["cb"] == kind.name() && e["o"] == o => {
                    if e["panic"] == true && !std::thread::panicking() {
                        Decision::Panic
                    } else {
                        Decision::Return
                    }
                }
                _ => Decision::Return,
            }
        }
        2 => random_in_cb::<P>(kind, o),
        3 => DIR.with(|d| match &mut *d.borrow_mut() {
            Dir::Script(p) => {
                let key = format!("{}:{}", kind.name(), o);
                if let Some(q) = p.inops.get_mut(&key) {
                    if let Some(op) = q.pop_front() {
                        return Decision::Do(op);
                    }
                }
                let (seen, plan) = match kind {
                    CbKind::Finalize => (&mut p.seen_finalize, p.finalize),
                    CbKind::Drop => (&mut p.seen_drop, p.drop),
                    _ => return Decision::Return,
                };
                let k = *seen;
                *seen += 1;
                if plan == Some(k) && !std::thread::panicking() {
                    // one-shot: the decision loop asks again after a Do, never after Panic
                    Decision::Panic
                } else {
                    Decision::Return
                }
            }
            _ => Decision::Return,
        }),
        _ => Decision::Return,
    }
}

fn random_in_cb<P: Pad>(kind: CbKind, o: u32) -> Decision {
    let panicking = std::thread::panicking();
    let planted = with_random(|r| r.cb_plan.get_mut(&format!("{}:{}", kind.name(), o)).and_then(|q| q.pop_front())).flatten();
    if let Some(op) = planted {
        if world::valid::<P>(&op) {
            return Decision::Do(op);
        }
    }
    let act = with_random(|r| {
        if kind == CbKind::Drop && !panicking {
            match r.arm_drop {
                Some(0) => {
                    r.arm_drop = None;
                    if r.faults < r.cfg.max_faults {
                        r.faults += 1;
                        return 2;
                    }
                }
                Some(k) => r.arm_drop = Some(k - 1),
                None => {}
            }
        }
        if r.cb_budget == 0 || !r.rng.gen_bool(r.cfg.cb_act_p) {
            if !panicking && r.faults < r.cfg.max_faults && r.rng.gen_bool(r.cfg.fault_p) {
                r.faults += 1;
                return 2;
            }
            return 0;
        }
        r.cb_budget -= 1;
        1
    })
    .unwrap_or(0);
    match act {
        0 => Decision::Return,
        2 => Decision::Panic,
        _ => {
            let op = with_world::<P, _>(|w| with_random(|r| gen_cb_op(r, w, kind, o)).flatten());
            match op {
                Some(op) if world::valid::<P>(&op) => Decision::Do(op),
                _ => Decision::Return,
            }
        }
    }
}

#[cfg(feature = "clean")]
fn cleanable_ids<P: Pad>(w: &World<P>) -> Vec<u32> {
    w.cleanables.keys().copied().collect()
}
#[cfg(not(feature = "clean"))]
fn cleanable_ids<P: Pad>(_w: &World<P>) -> Vec<u32> {
    Vec::new()
}

fn pick<T: Copy>(rng: &mut StdRng, v: &[T]) -> Option<T> {
    if v.is_empty() {
        None
    } else {
        Some(v[rng.gen_range(0..v.len())])
    }
}

fn root_ids<P: Pad>(w: &World<P>) -> Vec<u32> {
    w.roots.iter().filter(|(_, v)| !v.is_empty()).map(|(o, _)| *o).collect()
}
#[cfg(feature = "weak")]
fn wroot_ids<P: Pad>(w: &World<P>) -> Vec<u32> {
    w.wroots.iter().filter(|(_, v)| !v.is_empty()).map(|(o, _)| *o).collect()
}
#[cfg(not(feature = "weak"))]
fn wroot_ids<P: Pad>(_w: &World<P>) -> Vec<u32> {
    Vec::new()
}

/// An operation made from inside a callback of object `me`.
fn gen_cb_op<P: Pad>(r: &mut RandomDir, w: &mut World<P>, kind: CbKind, me: u32) -> Option<Value> {
    let roots = root_ids(w);
    let rng = &mut r.rng;
    if kind == CbKind::Drop {
        // Restricted vocabulary (the Trace contract forbids touching Ccs from Drop):
        // probes only.
        let c = rng.gen_range(0..6);
        return match c {
            0 => Some(json!({"e": "call", "op": "collect"})),
            1 if r.cfg.weak && w.nw > 0 => Some(json!({"e": "call", "op": "upgradef", "a": me, "k": "w", "i": rng.gen_range(1..=w.nw)})),
            2 => pick(rng, &roots).map(|o| json!({"e": "call", "op": "unwrap", "o": o})),
            3 if cfg!(feature = "fin") => pick(rng, &roots).map(|o| json!({"e": "call", "op": "fagain", "o": o})),
            _ => None,
        };
    }
    if kind == CbKind::Action {
        let c = rng.gen_range(0..12);
        let cs = cleanable_ids(w);
        return match c {
            0..=1 => pick(rng, &cs).map(|c| json!({"e": "call", "op": "clean", "c": c})),
            2 => Some(json!({"e": "call", "op": "collect"})),
            3 => {
                if (roots.len() as u32) < r.cfg.max_objs {
                    Some(json!({"e": "call", "op": "new", "o": w.next_id}))
                } else {
                    None
                }
            }
            4..=5 => pick(rng, &roots).map(|o| json!({"e": "call", "op": "drop", "o": o})),
            6 if r.cfg.weak => pick(rng, &wroot_ids(w)).map(|o| json!({"e": "call", "op": "upgrade", "o": o})),
            7 => pick(rng, &roots).map(|o| json!({"e": "call", "op": "unwrap", "o": o})),
            _ => None,
        };
    }
    if kind == CbKind::Closure {
        let c = rng.gen_range(0..10);
        return match c {
            0..=2 => Some(json!({"e": "call", "op": "savew", "o": me})),
            3..=4 => Some(json!({"e": "call", "op": "wprobe", "o": me})),
            5 => Some(json!({"e": "call", "op": "collect"})),
            6 => {
                if (roots.len() as u32) < r.cfg.max_objs {
                    Some(json!({"e": "call", "op": "new", "o": w.next_id}))
                } else {
                    None
                }
            }
            7 => pick(rng, &roots).map(|o| json!({"e": "call", "op": "drop", "o": o})),
            _ => None,
        };
    }
    if kind == CbKind::Finalize && r.cfg.weak && w.nw > 0 && rng.gen_bool(0.3) {
        // upgrade one of my own weak fields (a neighbour, possibly of the set being reclaimed)
        return Some(json!({"e": "call", "op": "upgradef", "a": me, "k": "w", "i": rng.gen_range(1..=w.nw)}));
    }
    let c = rng.gen_range(0..100);
    let slot = |rng: &mut StdRng, w: &World<P>| -> (String, u32) {
        if w.np > 0 && rng.gen_bool(0.25) {
            ("p".to_string(), rng.gen_range(1..=w.np))
        } else {
            ("s".to_string(), rng.gen_range(1..=w.ns.max(1)))
        }
    };
    match c {
        0..=24 => {
            // resurrect: clone one of my own fields into the globals
            let (k, i) = slot(rng, w);
            Some(json!({"e": "call", "op": "clonef", "a": me, "k": k, "i": i}))
        }
        25..=39 => {
            let (k, i) = slot(rng, w);
            Some(json!({"e": "call", "op": "clear", "a": me, "k": k, "i": i}))
        }
        40..=49 => {
            let (k, i) = slot(rng, w);
            pick(rng, &roots).map(|b| json!({"e": "call", "op": "set", "a": me, "k": k, "i": i, "b": b}))
        }
        50..=59 => pick(rng, &roots).map(|o| json!({"e": "call", "op": "drop", "o": o})),
        60..=66 => {
            if w.created < 4000 && (roots.len() as u32) < r.cfg.max_objs {
                let o = w.next_id;
                Some(json!({"e": "call", "op": "new", "o": o}))
            } else {
                None
            }
        }
        67..=72 => Some(json!({"e": "call", "op": "collect"})),
        73..=77 => pick(rng, &roots).map(|o| json!({"e": "call", "op": "unwrap", "o": o})),
        78..=82 if cfg!(feature = "fin") => pick(rng, &roots).map(|o| json!({"e": "call", "op": "fagain", "o": o})),
        83..=90 if r.cfg.weak && w.nw > 0 => Some(json!({"e": "call", "op": "upgradef", "a": me, "k": "w", "i": rng.gen_range(1..=w.nw)})),
        91..=92 => pick(rng, &roots).map(|o| json!({"e": "call", "op": "clone", "o": o})),
        93..=94 => {
            let cs = cleanable_ids(w);
            if cs.is_empty() {
                pick(rng, &roots).map(|o| json!({"e": "call", "op": "clone", "o": o}))
            } else {
                pick(rng, &cs).map(|c| json!({"e": "call", "op": "clean", "c": c}))
            }
        }
        95..=96 => {
            let (k, i) = slot(rng, w);
            pick(rng, &roots).map(|a| json!({"e": "call", "op": "clonef", "a": a, "k": k, "i": i}))
        }
        97..=99 => {
            // move a handle into one of my own fields (resurrection without an extra clone/drop)
            let (k, i) = slot(rng, w);
            let o = if roots.contains(&me) && rng.gen_bool(0.7) { Some(me) } else { pick(rng, &roots) };
            o.map(|o| json!({"e": "call", "op": "put", "a": me, "k": k, "i": i, "o": o}))
        }
        _ => None,
    }
}

/// A top-level operation.
pub fn gen_top_op<P: Pad>(r: &mut RandomDir, w: &mut World<P>) -> Option<Value> {
    let roots = root_ids(w);
    let wroots = wroot_ids(w);
    let moved: Vec<u32> = w.moved.keys().copied().collect();
    let rng = &mut r.rng;
    let slot = |rng: &mut StdRng, w: &World<P>| -> (String, u32) {
        if w.np > 0 && rng.gen_bool(0.2) {
            ("p".to_string(), rng.gen_range(1..=w.np))
        } else {
            ("s".to_string(), rng.gen_range(1..=w.ns.max(1)))
        }
    };
    let few = (roots.len() as u32) < r.cfg.max_objs / 2;
    let c = rng.gen_range(0..200);
    match c {
        0..=24 => {
            if (roots.len() as u32) < r.cfg.max_objs && (few || rng.gen_bool(0.4)) {
                let o = w.next_id;
                if r.cfg.weak && rng.gen_bool(0.2) {
                    Some(json!({"e": "call", "op": "newcyc", "o": o}))
                } else {
                    Some(json!({"e": "call", "op": "new", "o": o}))
                }
            } else {
                pick(rng, &roots).map(|o| json!({"e": "call", "op": "drop", "o": o}))
            }
        }
        25..=44 => pick(rng, &roots).map(|o| json!({"e": "call", "op": "clone", "o": o})),
        45..=84 => pick(rng, &roots).map(|o| json!({"e": "call", "op": "drop", "o": o})),
        85..=114 => {
            let (k, i) = slot(rng, w);
            let a = pick(rng, &roots)?;
            let b = pick(rng, &roots)?;
            Some(json!({"e": "call", "op": "set", "a": a, "k": k, "i": i, "b": b}))
        }
        115..=129 => {
            let (k, i) = slot(rng, w);
            pick(rng, &roots).map(|a| json!({"e": "call", "op": "clear", "a": a, "k": k, "i": i}))
        }
        130..=139 => {
            let (k, i) = slot(rng, w);
            pick(rng, &roots).map(|a| json!({"e": "call", "op": "clonef", "a": a, "k": k, "i": i}))
        }
        140..=141 => pick(rng, &roots).map(|o| json!({"e": "call", "op": "mark", "o": o})),
        142..=143 if cfg!(feature = "clean") && r.cfg.clean => {
            let k = rng.gen_range(0..10);
            if k < 5 {
                let a = pick(rng, &roots)?;
                let t = if rng.gen_bool(0.5) { pick(rng, &roots).filter(|t| *t != a || w.roots.get(t).map_or(0, |v| v.len()) >= 2).unwrap_or(0) } else { 0 };
                w.next_action += 1;
                Some(json!({"e": "call", "op": "register", "a": a, "c": w.next_action, "t": t}))
            } else if k < 9 {
                let cs: Vec<u32> = cleanable_ids(w);
                pick(rng, &cs).map(|c| json!({"e": "call", "op": "clean", "c": c}))
            } else {
                let cs: Vec<u32> = cleanable_ids(w);
                pick(rng, &cs).map(|c| json!({"e": "call", "op": "dropcl", "c": c}))
            }
        }
        144..=145 => {
            let (k, i) = slot(rng, w);
            let a = pick(rng, &roots)?;
            let o = pick(rng, &roots)?;
            Some(json!({"e": "call", "op": "put", "a": a, "k": k, "i": i, "o": o}))
        }
        146 => {
            let (k, i) = slot(rng, w);
            pick(rng, &roots).map(|a| json!({"e": "call", "op": "take", "a": a, "k": k, "i": i}))
        }
        147..=149 if cfg!(feature = "auto") && r.cfg.auto => {
            let (pn, pd) = [(1, 10), (0, 1), (1, 1), (1, 2), (3, 4), (1, 16)][rng.gen_range(0..6)];
            let bt = [0, 0, 1, 2, 5][rng.gen_range(0..5)];
            Some(json!({"e": "call", "op": "setcfg", "auto": rng.gen_bool(0.85), "pn": pn, "pd": pd, "bt": bt}))
        }
        147..=161 => Some(json!({"e": "call", "op": "collect"})),
        162..=168 => pick(rng, &roots).map(|o| json!({"e": "call", "op": "unwrap", "o": o})),
        169..=172 => pick(rng, &moved).map(|o| json!({"e": "call", "op": "dropval", "o": o})),
        173..=176 if cfg!(feature = "fin") => pick(rng, &roots).map(|o| json!({"e": "call", "op": "fagain", "o": o})),
        177..=183 if r.cfg.weak => pick(rng, &roots).map(|o| json!({"e": "call", "op": "downgrade", "o": o})),
        184..=188 if r.cfg.weak => pick(rng, &wroots).map(|o| json!({"e": "call", "op": "upgrade", "o": o})),
        189..=190 if r.cfg.weak => pick(rng, &wroots).map(|o| json!({"e": "call", "op": "clonew", "o": o})),
        191..=194 if r.cfg.weak => pick(rng, &wroots).map(|o| json!({"e": "call", "op": "dropw", "o": o})),
        195..=196 if r.cfg.weak && w.nw > 0 => {
            let a = pick(rng, &roots)?;
            let o = pick(rng, &wroots)?;
            Some(json!({"e": "call", "op": "setw", "a": a, "k": "w", "i": rng.gen_range(1..=w.nw), "o": o}))
        }
        197 if r.cfg.weak => Some(json!({"e": "call", "op": "wnew"})),
        198 if r.cfg.weak && w.nw > 0 => pick(rng, &roots).map(|a| json!({"e": "call", "op": "clearw", "a": a, "k": "w", "i": rng.gen_range(1..=w.nw)})),
        199 if r.cfg.weak && w.nw > 0 => pick(rng, &roots).map(|a| json!({"e": "call", "op": "upgradef", "a": a, "k": "w", "i": rng.gen_range(1..=w.nw)})),
        _ => pick(rng, &moved).map(|o| json!({"e": "call", "op": "dropval", "o": o})),
    }
}

pub fn new_random(seed: u64, cfg: RandomCfg) -> Dir {
    Dir::Random(Box::new(RandomDir { rng: StdRng::seed_from_u64(seed), cfg, faults: 0, cb_budget: 0, queue: Default::default(), arm_drop: None, cb_plan: Default::default() }))
}

/// After a caught panic: poke the objects the program still holds in the way that exposes stale collector
/// state (marks / tracing counters left behind by an unwound collection): remove one counted internal
/// reference to a held object, hang a fresh garbage cycle on it, collect.
pub fn gen_probe<P: Pad>(r: &mut RandomDir, w: &mut World<P>) {
    let roots = root_ids(w);
    let rng = &mut r.rng;
    let Some(x) = pick(rng, &roots) else { return };
    // a held object with a traced field pointing to x
    let mut incoming: Vec<(u32, u32)> = Vec::new();
    for (y, v) in w.roots.iter() {
        if let Some(cc) = v.first() {
            if let Ok(sl) = cc.slots.try_borrow() {
                for s in sl.iter() {
                    if s.inner.is_some() && s.target == x {
                        incoming.push((*y, s.idx));
                    }
                }
            }
        }
    }
    if let Some((y, i)) = pick(rng, &incoming) {
        if rng.gen_bool(0.8) {
            r.queue.push_back(json!({"e": "call", "op": "clear", "a": y, "k": "s", "i": i}));
        }
    }
    let g = w.next_id;
    r.queue.push_back(json!({"e": "call", "op": "new", "o": g}));
    if w.ns >= 2 {
        r.queue.push_back(json!({"e": "call", "op": "set", "a": g, "k": "s", "i": 1, "b": g}));
        r.queue.push_back(json!({"e": "call", "op": "set", "a": g, "k": "s", "i": 2, "b": x}));
    } else {
        r.queue.push_back(json!({"e": "call", "op": "set", "a": g, "k": "s", "i": 1, "b": x}));
    }
    r.queue.push_back(json!({"e": "call", "op": "drop", "o": g}));
    r.queue.push_back(json!({"e": "call", "op": "collect"}));
}

/// Structures that the uniform generator rarely builds: a garbage cycle whose member owns, through an
/// untraced field, a uniquely owned helper that holds a Weak to a member of the cycle (its finalizer /
/// destructor runs inside the destructor phase of the collection that reclaims the cycle).
/// A cleaning action that is cleaned from inside a collection and releases the owner of its own Cleaner while another
/// action is still registered there: the remaining action must have run when the drop of that Cleaner returns.
#[cfg(feature = "clean")]
pub fn gen_clean_scenario<P: Pad>(r: &mut RandomDir, w: &mut World<P>) {
    if w.ns == 0 {
        return;
    }
    let (x, g) = (w.next_id, w.next_id + 1);
    let (ca, cb) = (w.next_action + 1, w.next_action + 2);
    w.next_action += 2;
    let first_b = r.rng.gen_bool(0.5);
    let from_destructor = !cfg!(feature = "fin") || r.rng.gen_bool(0.3);
    let q = &mut r.queue;
    q.push_back(json!({"e": "call", "op": "new", "o": x}));
    q.push_back(json!({"e": "call", "op": "new", "o": g}));
    for c in if first_b { [cb, ca] } else { [ca, cb] } {
        q.push_back(json!({"e": "call", "op": "register", "a": x, "c": c, "t": 0}));
    }
    q.push_back(json!({"e": "call", "op": "set", "a": g, "k": "s", "i": 1, "b": g}));
    q.push_back(json!({"e": "call", "op": "drop", "o": g}));
    q.push_back(json!({"e": "call", "op": "collect"}));
    // the collector's finalizer (or destructor) of g cleans action A, which releases the program's only handle to x
    let kind = if from_destructor { "drop" } else { "finalize" };
    r.cb_plan.entry(format!("{}:{}", kind, g)).or_default().push_back(json!({"e": "call", "op": "clean", "c": ca}));
    r.cb_plan.entry(format!("action:{}", ca)).or_default().push_back(json!({"e": "call", "op": "drop", "o": x}));
}

pub fn gen_scenario<P: Pad>(r: &mut RandomDir, w: &mut World<P>) {
    #[cfg(feature = "clean")]
    if r.cfg.clean && r.rng.gen_bool(0.4) {
        gen_clean_scenario(r, w);
        return;
    }
    if !(r.cfg.weak && w.np >= 1 && w.nw >= 1 && w.ns >= 1) || r.rng.gen_bool(0.5) {
        gen_dense_garbage(r, w);
        return;
    }
    let rng = &mut r.rng;
    let (a, b, h) = (w.next_id, w.next_id + 1, w.next_id + 2);
    let target = if rng.gen_bool(0.5) { b } else { a };
    let owner = if rng.gen_bool(0.5) { a } else { b };
    let first = rng.gen_bool(0.5);
    let q = &mut r.queue;
    for o in [a, b, h] {
        q.push_back(json!({"e": "call", "op": "new", "o": o}));
    }
    q.push_back(json!({"e": "call", "op": "downgrade", "o": target}));
    q.push_back(json!({"e": "call", "op": "setw", "a": h, "k": "w", "i": 1, "o": target}));
    q.push_back(json!({"e": "call", "op": "dropw", "o": target}));
    q.push_back(json!({"e": "call", "op": "put", "a": owner, "k": "p", "i": 1, "o": h}));
    q.push_back(json!({"e": "call", "op": "set", "a": a, "k": "s", "i": 1, "b": b}));
    q.push_back(json!({"e": "call", "op": "set", "a": b, "k": "s", "i": 1, "b": a}));
    if w.ns >= 2 {
        // a second pointer to the observed member from inside the set keeps its count above zero while
        // the other members' fields are being dropped
        q.push_back(json!({"e": "call", "op": "set", "a": target, "k": "s", "i": 2, "b": target}));
    }
    q.push_back(json!({"e": "call", "op": "drop", "o": if first { a } else { b }}));
    q.push_back(json!({"e": "call", "op": "drop", "o": if first { b } else { a }}));
    q.push_back(json!({"e": "call", "op": "collect"}));
    // the helper looks at the observed member from its finalizer and from its destructor (both run inside the
    // destructor phase of the collection, nested in a plain reference-count drop)
    for kind in ["finalize", "drop"] {
        r.cb_plan.entry(format!("{}:{}", kind, h)).or_default().push_back(json!({"e": "call", "op": "upgradef", "a": h, "k": "w", "i": 1}));
    }
}

/// A small dense garbage graph: k objects, every traced field pointing to a random member (shared nodes, several
/// cycles through one node, in-degree above one), handles released in a random order, then collections.
pub fn gen_dense_garbage<P: Pad>(r: &mut RandomDir, w: &mut World<P>) {
    if w.ns == 0 {
        return;
    }
    let weak = r.cfg.weak;
    let faults = r.cfg.max_faults > 0 && r.faults < r.cfg.max_faults;
    let rng = &mut r.rng;
    let k = rng.gen_range(3..=5u32);
    let ids: Vec<u32> = (0..k).map(|i| w.next_id + i).collect();
    let q = &mut r.queue;
    for o in &ids {
        q.push_back(json!({"e": "call", "op": "new", "o": o}));
    }
    // sometimes the program keeps Weak pointers to members, and a destructor of the set panics in the collection:
    // whatever the unwound destructor phase leaves behind must not be handed out by upgrade afterwards
    let observed: Vec<u32> = if weak && rng.gen_bool(0.5) { ids.iter().copied().filter(|_| rng.gen_bool(0.5)).collect() } else { Vec::new() };
    for o in &observed {
        q.push_back(json!({"e": "call", "op": "downgrade", "o": o}));
    }
    let arm = if faults && rng.gen_bool(0.4) { Some(rng.gen_range(0..3u32)) } else { None };
    for a in &ids {
        for i in 1..=w.ns {
            if rng.gen_bool(0.8) {
                let b = ids[rng.gen_range(0..ids.len())];
                q.push_back(json!({"e": "call", "op": "set", "a": a, "k": "s", "i": i, "b": b}));
            }
        }
    }
    let mut order = ids.clone();
    for i in (1..order.len()).rev() {
        order.swap(i, rng.gen_range(0..=i));
    }
    // sometimes one member stays held by the program: nothing reachable from it may be reclaimed
    let keep = if rng.gen_bool(0.3) { order.pop() } else { None };
    for o in &order {
        q.push_back(json!({"e": "call", "op": "drop", "o": o}));
    }
    match arm {
        Some(k) if keep.is_none() => q.push_back(json!({"e": "call", "op": "collect", "armdrop": k})),
        _ => q.push_back(json!({"e": "call", "op": "collect"})),
    }
    if let Some(o) = keep {
        q.push_back(json!({"e": "call", "op": "drop", "o": o}));
        q.push_back(json!({"e": "call", "op": "collect"}));
    }
    for o in &observed {
        q.push_back(json!({"e": "call", "op": "upgrade", "o": o}));
    }
    if !observed.is_empty() {
        q.push_back(json!({"e": "call", "op": "collect"}));
    }
}
