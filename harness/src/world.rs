//! The "program": handle tables held outside the managed heap, and the operations on them.
//! Every operation is logged as `call` ... `ret` with the observation vector.

use rust_cc::*;
use serde_json::{json, Map, Value};
use std::cell::{Cell, RefCell};
use std::collections::BTreeMap;
use std::panic::{catch_unwind, AssertUnwindSafe};

use crate::alloc;
use crate::director::CbKind;
use crate::node::{is_tracing, Injected, Node, Pad, Slot};
#[cfg(feature = "weak")]
use crate::node::WSlot;
use crate::rec::{emit, CUR_META, CUR_NEW, DEPTH};

pub struct World<P: Pad> {
    pub roots: BTreeMap<u32, Vec<Cc<Node<P>>>>,
    #[cfg(feature = "weak")]
    pub wroots: BTreeMap<u32, Vec<weak::Weak<Node<P>>>>,
    pub moved: BTreeMap<u32, Node<P>>,
    #[cfg(feature = "clean")]
    pub cleanables: BTreeMap<u32, Box<cleaners::Cleanable>>,
    pub ns: u32,
    pub np: u32,
    pub nw: u32,
    pub next_id: u32,
    pub next_action: u32,
    /// ids of objects ever created (for the random driver)
    pub created: u32,
}

impl<P: Pad> World<P> {
    pub fn new(ns: u32, np: u32, nw: u32) -> Self {
        World {
            roots: BTreeMap::new(),
            #[cfg(feature = "weak")]
            wroots: BTreeMap::new(),
            moved: BTreeMap::new(),
            #[cfg(feature = "clean")]
            cleanables: BTreeMap::new(),
            ns,
            np,
            nw,
            next_id: 1,
            next_action: 0,
            created: 0,
        }
    }
}

#[derive(Copy, Clone)]
pub struct Ctx {
    pub id: u32,
    pub ptr: *const (),
    pub kind: CbKind,
}

thread_local! {
    /// id of the value currently being handed to Cc::new (it is dropped by unwinding if the
    /// automatic collection started by Cc::new panics)
    pub static PENDING_NEW: Cell<u32> = const { Cell::new(0) };
    /// the Weak provided to the running new_cyclic closure
    pub static PROVIDED: Cell<*const ()> = const { Cell::new(std::ptr::null()) };
    /// (owner, action, target, address of the target node) of every Cc captured by a cleaning action:
    /// lets the reachability walk follow pointers that live inside boxed closures
    static CAPS: RefCell<Vec<(u32, u32, u32, usize)>> = const { RefCell::new(Vec::new()) };
    /// owners whose handle is borrowed by a running Cleaner::register call (it may run user code)
    static REG_BORROWS: RefCell<Vec<u32>> = const { RefCell::new(Vec::new()) };
    /// did the last top-level operation end with a (caught) panic?
    pub static LAST_PANICKED: Cell<bool> = const { Cell::new(false) };
    /// ids of node values that exist (created and not yet dropped)
    static LIVE: RefCell<std::collections::BTreeSet<u32>> = const { RefCell::new(std::collections::BTreeSet::new()) };
    static WORLD: Cell<*mut ()> = const { Cell::new(std::ptr::null_mut()) };
    static CTX: RefCell<Vec<Ctx>> = const { RefCell::new(Vec::new()) };
}

pub fn install<P: Pad>(w: Box<World<P>>) {
    WORLD.with(|c| c.set(Box::into_raw(w) as *mut ()));
}

pub fn install_raw(p: *mut ()) {
    WORLD.with(|c| c.set(p));
}

/// Leaks the world (handles are never dropped at the end of a run).
pub fn uninstall() {
    CAPS.with(|c| c.borrow_mut().clear());
    LIVE.with(|c| c.borrow_mut().clear());
    WORLD.with(|c| c.set(std::ptr::null_mut()));
    CTX.with(|c| c.borrow_mut().clear());
}

/// Short, non re-entrant access to the handle tables. `f` must not call anything
/// that can run a user callback.
pub fn with_world<P: Pad, R>(f: impl FnOnce(&mut World<P>) -> R) -> R {
    let p = WORLD.with(|c| c.get()) as *mut World<P>;
    assert!(!p.is_null(), "no world installed");
    unsafe { f(&mut *p) }
}

pub fn live_add(id: u32) {
    let _ = LIVE.try_with(|c| c.borrow_mut().insert(id));
}
pub fn live_remove(id: u32) {
    let _ = LIVE.try_with(|c| c.borrow_mut().remove(&id));
}
fn is_live(id: u32) -> bool {
    LIVE.with(|c| c.borrow().contains(&id))
}

pub fn caps_add(owner: u32, action: u32, target: u32, addr: usize) {
    CAPS.with(|c| c.borrow_mut().push((owner, action, target, addr)));
}
pub fn caps_remove(owner: u32, action: u32) {
    let _ = CAPS.try_with(|c| c.borrow_mut().retain(|x| !(x.0 == owner && x.1 == action)));
}
fn caps_of(owner: u32) -> Vec<(u32, usize)> {
    CAPS.with(|c| c.borrow().iter().filter(|x| x.0 == owner).map(|x| (x.2, x.3)).collect())
}

pub fn push_ctx(id: u32, ptr: *const (), kind: CbKind) {
    let _ = CTX.try_with(|c| c.borrow_mut().push(Ctx { id, ptr, kind }));
}
pub fn pop_ctx() {
    let _ = CTX.try_with(|c| {
        c.borrow_mut().pop();
    });
}
pub fn top_ctx() -> Option<Ctx> {
    CTX.with(|c| c.borrow().last().copied())
}
pub fn ctx_depth() -> usize {
    CTX.with(|c| c.borrow().len())
}
fn ctx_ptr_kind(id: u32) -> Option<CbKind> {
    CTX.with(|c| c.borrow().iter().rev().find(|x| x.id == id).map(|x| x.kind))
}
fn ctx_ptr(id: u32) -> Option<*const ()> {
    CTX.with(|c| c.borrow().iter().rev().find(|x| x.id == id).map(|x| x.ptr))
}

/// A reference to the node `a`, through a program-held handle or through the `self`
/// of a running callback. The reference must not be kept across crate calls.
unsafe fn node_ref<'a, P: Pad>(w: &'a World<P>, a: u32) -> Option<&'a Node<P>> {
    if let Some(p) = ctx_ptr(a) {
        if !p.is_null() {
            return Some(&*(p as *const Node<P>));
        }
    }
    if let Some(v) = w.roots.get(&a) {
        if let Some(cc) = v.first() {
            return Some(&**cc);
        }
    }
    if let Some(n) = w.moved.get(&a) {
        return Some(n);
    }
    None
}

fn g_u32(v: &Value, k: &str) -> u32 {
    v.get(k).and_then(|x| x.as_u64()).unwrap_or(0) as u32
}
fn g_str<'a>(v: &'a Value, k: &str) -> &'a str {
    v.get(k).and_then(|x| x.as_str()).unwrap_or("")
}

pub fn classify(p: &(dyn std::any::Any + Send)) -> String {
    if p.is::<Injected>() {
        return "inj".into();
    }
    let msg: String = if let Some(s) = p.downcast_ref::<&str>() {
        s.to_string()
    } else if let Some(s) = p.downcast_ref::<String>() {
        s.clone()
    } else {
        "?".into()
    };
    if msg.contains("Too many references") {
        "max".into()
    } else if msg.contains("finalize_again cannot be called") {
        "fagain".into()
    } else if msg.contains("while tracing") {
        "tracing".into()
    } else {
        let mut m: String = msg.chars().filter(|c| c.is_ascii() && *c != '"' && *c != '\\').take(60).collect();
        m.insert_str(0, "other:");
        m
    }
}

// ---------------------------------------------------------------- observations

fn walk_node<P: Pad>(n: &Node<P>, expect: u32, seen: &mut BTreeMap<u32, bool>) {
    if seen.contains_key(&expect) {
        return;
    }
    let ok = n.canary_ok(expect);
    seen.insert(expect, ok);
    if !ok {
        return;
    }
    // Follow every strong field by reference (never through temporary clones)
    let mut next: Vec<(u32, *const Node<P>)> = Vec::new();
    if let Ok(sl) = n.slots.try_borrow() {
        for s in sl.iter() {
            if let Some(cc) = &s.inner {
                next.push((s.target, &**cc as *const Node<P>));
            }
        }
    }
    if let Ok(sl) = n.pins.try_borrow() {
        for s in sl.iter() {
            if let Some(cc) = &s.inner {
                next.push((s.target, &**cc as *const Node<P>));
            }
        }
    }
    for (t, addr) in caps_of(expect) {
        next.push((t, addr as *const Node<P>));
    }
    for (t, p) in next {
        walk_node(unsafe { &*p }, t, seen);
    }
}

pub fn observe<P: Pad>(m: &mut Map<String, Value>) {
    with_world::<P, _>(|w| {
        m.insert("x".into(), json!(state::executions_count().map(|v| v as i64).unwrap_or(-1)));
        m.insert("by".into(), json!(state::allocated_bytes().map(|v| v as i64).unwrap_or(-1)));
        m.insert("bf".into(), json!(state::buffered_objects_count().map(|v| v as i64).unwrap_or(-1)));
        let it = is_tracing();
        m.insert("it".into(), json!(it));
        #[cfg(feature = "auto")]
        m.insert("thr".into(), json!(rust_cc::verif_hooks::bytes_threshold().map(|v| v as i64).unwrap_or(-1)));
        if it {
            // Nothing may be dereferenced while tracing (it never is: ops do not run in trace callbacks)
            return;
        }
        // counts of handle-held objects
        let mut sc = Vec::new();
        let mut ad = Vec::new();
        for (o, v) in w.roots.iter() {
            if let Some(cc) = v.first() {
                let base = rust_cc::verif_hooks::box_addr(cc);
                let e = alloc::lookup(base);
                let (blk, live) = e.map(|e| (e.blk as i64, e.live)).unwrap_or((0, false));
                if !live {
                    // the allocation behind a program-held Cc is gone (quarantined, poisoned): do not touch it
                    sc.push(json!([o, -1, -1, false]));
                    ad.push(json!([o, blk, 0, 0, false, false]));
                    continue;
                }
                #[cfg(feature = "weak")]
                let wc = cc.weak_count() as i64;
                #[cfg(not(feature = "weak"))]
                let wc = 0i64;
                #[cfg(feature = "fin")]
                let fin = cc.already_finalized();
                #[cfg(not(feature = "fin"))]
                let fin = false;
                sc.push(json!([o, cc.strong_count(), wc, fin]));
                // address observations (C20): Deref / AsRef / Borrow agree, stable, aligned
                let a1 = &**cc as *const Node<P> as usize;
                let a2 = <Cc<Node<P>> as AsRef<Node<P>>>::as_ref(cc) as *const Node<P> as usize;
                let a3 = <Cc<Node<P>> as std::borrow::Borrow<Node<P>>>::borrow(cc) as *const Node<P> as usize;
                let same = a1 == a2 && a2 == a3 && v.iter().take(8).chain(v.iter().rev().take(8)).all(|c| (&**c as *const Node<P> as usize) == a1);
                ad.push(json!([o, blk, (a1 as i64) - (base as i64), (a1 % std::mem::align_of::<Node<P>>()) as i64, same, live]));
            }
        }
        m.insert("sc".into(), Value::Array(sc));
        m.insert("ad".into(), Value::Array(ad));
        #[cfg(feature = "weak")]
        {
            let mut wk = Vec::new();
            for (o, v) in w.wroots.iter() {
                if let Some(wp) = v.first() {
                    wk.push(json!([o, wp.strong_count(), wp.weak_count()]));
                }
            }
            m.insert("wk".into(), Value::Array(wk));
        }
        // reachability walk through real pointers
        let mut seen: BTreeMap<u32, bool> = BTreeMap::new();
        for (o, v) in w.roots.iter() {
            if let Some(cc) = v.first() {
                walk_node(&**cc, *o, &mut seen);
            }
        }
        for (o, n) in w.moved.iter() {
            walk_node(n, *o, &mut seen);
        }
        m.insert("rw".into(), Value::Array(seen.iter().map(|(o, ok)| json!([o, ok])).collect()));
        // buffer walk (hook)
        match rust_cc::verif_hooks::buffer_walk() {
            Some((sz, addrs, links_ok)) => {
                let ids: Vec<Value> = addrs
                    .iter()
                    .map(|a| match alloc::lookup(*a) {
                        Some(e) if e.live => json!(e.oid),
                        Some(e) => json!(-(e.oid as i64)),
                        None => json!(0),
                    })
                    .collect();
                m.insert("walk".into(), Value::Array(ids));
                m.insert("wsz".into(), json!(sz));
                m.insert("lk".into(), json!(links_ok));
            }
            None => {
                m.insert("walk".into(), json!([]));
                m.insert("wsz".into(), json!(-1));
                m.insert("lk".into(), json!(true));
            }
        }
    });
}

fn ret_event<P: Pad>(op: &str, res: Value, panic: &str) -> Value {
    let mut m = Map::new();
    m.insert("e".into(), json!("ret"));
    m.insert("op".into(), json!(op));
    m.insert("panic".into(), json!(panic));
    if let Value::Object(r) = res {
        for (k, v) in r {
            m.insert(k, v);
        }
    }
    if !m.contains_key("res") {
        m.insert("res".into(), json!(""));
    }
    let r = catch_unwind(AssertUnwindSafe(|| {
        let mut o = Map::new();
        observe::<P>(&mut o);
        o
    }));
    match r {
        Ok(o) => {
            for (k, v) in o {
                m.insert(k, v);
            }
        }
        Err(p) => {
            m.insert("obspanic".into(), json!(classify(&*p)));
        }
    }
    Value::Object(m)
}

struct RetGuard<P: Pad> {
    op: String,
    depth: u32,
    armed: bool,
    _p: std::marker::PhantomData<P>,
}
impl<P: Pad> Drop for RetGuard<P> {
    fn drop(&mut self) {
        if self.armed {
            DEPTH.with(|d| d.set(self.depth));
            // A minimal ret: observations are taken again by the outermost op
            emit(json!({"e": "ret", "op": self.op, "res": "", "panic": "unwind", "x": state::executions_count().map(|v| v as i64).unwrap_or(-1)}));
        }
    }
}

/// Runs one operation: `call`, body, `ret`. At depth 0 a panic is caught (this is the
/// program catching it at top level); inside callbacks it propagates.
fn run_op<P: Pad>(call: &Value, body: impl FnOnce() -> Value) {
    let op = g_str(call, "op").to_string();
    let mut call_ev = call.clone();
    call_ev["x"] = json!(state::executions_count().map(|v| v as i64).unwrap_or(-1));
    if op == "new" || op == "newcyc" || op == "register" {
        call_ev["by"] = json!(state::allocated_bytes().map(|v| v as i64).unwrap_or(-1));
        call_ev["bf"] = json!(state::buffered_objects_count().map(|v| v as i64).unwrap_or(-1));
        #[cfg(feature = "auto")]
        {
            call_ev["thr"] = json!(rust_cc::verif_hooks::bytes_threshold().map(|v| v as i64).unwrap_or(-1));
        }
    }
    emit(call_ev);
    let depth = DEPTH.with(|d| d.get());
    DEPTH.with(|d| d.set(depth + 1));
    if depth == 0 {
        let r = catch_unwind(AssertUnwindSafe(body));
        DEPTH.with(|d| d.set(0));
        LAST_PANICKED.with(|c| c.set(r.is_err()));
        match r {
            Ok(v) => emit(ret_event::<P>(&op, v, "")),
            Err(p) => {
                let c = classify(&*p);
                emit(ret_event::<P>(&op, json!({}), &c))
            }
        }
    } else {
        let mut g = RetGuard::<P> { op: op.clone(), depth, armed: true, _p: std::marker::PhantomData };
        let v = body();
        g.armed = false;
        DEPTH.with(|d| d.set(depth));
        emit(ret_event::<P>(&op, v, ""));
    }
}

struct Restore(&'static std::thread::LocalKey<Cell<u32>>, u32);
impl Drop for Restore {
    fn drop(&mut self) {
        self.0.with(|c| c.set(self.1));
    }
}

fn slot_vec<'a, P: Pad>(n: &'a Node<P>, k: &str) -> &'a RefCell<Vec<Slot<P>>> {
    if k == "p" {
        &n.pins
    } else {
        &n.slots
    }
}

/// Is the operation executable in the current harness state? (replay robustness / random filter)
pub fn valid<P: Pad>(call: &Value) -> bool {
    let op = g_str(call, "op");
    let (o, a, b) = (g_u32(call, "o"), g_u32(call, "a"), g_u32(call, "b"));
    let (k, i) = (g_str(call, "k"), g_u32(call, "i") as usize);
    let borrowed = |x: u32| REG_BORROWS.with(|b| b.borrow().iter().filter(|y| **y == x).count());
    with_world::<P, _>(|w| {
        let has_root = |x: u32| w.roots.get(&x).map_or(false, |v| !v.is_empty() && alloc::lookup(rust_cc::verif_hooks::box_addr(&v[0])).map_or(false, |e| e.live));
        // a handle that can be given up: not the one a running register call borrows
        let has_free_root = |x: u32| w.roots.get(&x).map_or(0, |v| v.len()) > borrowed(x);
        let node_ok = |x: u32| unsafe { node_ref(w, x) }.is_some();
        let slot_state = |x: u32, k: &str, i: usize| -> Option<bool> {
            let n = unsafe { node_ref(w, x) }?;
            if k == "w" {
                #[cfg(feature = "weak")]
                {
                    let s = n.wslots.try_borrow().ok()?;
                    return s.get(i.wrapping_sub(1)).map(|s| s.inner.is_some());
                }
                #[cfg(not(feature = "weak"))]
                return None;
            }
            let s = slot_vec(n, k).try_borrow().ok()?;
            s.get(i.wrapping_sub(1)).map(|s| s.inner.is_some())
        };
        match op {
            "collect" | "setcfg" => true,
            #[cfg(feature = "weak")]
            "wnew" => true,
            "new" => !is_live(o),
            #[cfg(feature = "weak")]
            "newcyc" => !is_live(o),
            #[cfg(feature = "clean")]
            "register" => node_ok(a) && (g_u32(call, "t") == 0 || has_free_root(g_u32(call, "t"))) && !w.cleanables.contains_key(&g_u32(call, "c")),
            #[cfg(feature = "clean")]
            "clean" | "dropcl" => w.cleanables.contains_key(&g_u32(call, "c")),
            #[cfg(feature = "weak")]
            "savew" | "wprobe" => !PROVIDED.with(|c| c.get()).is_null() && ctx_ptr_kind(o) == Some(CbKind::Closure),
            "clone" | "mark" | "fagain" | "downgrade" | "clonen" => has_root(o),
            "drop" | "unwrap" => has_free_root(o),
            "dropn" => w.roots.get(&o).map_or(0, |v| v.len()) > g_u32(call, "n") as usize,
            #[cfg(feature = "weak")]
            "clonewn" => w.wroots.get(&o).map_or(false, |v| !v.is_empty()),
            #[cfg(feature = "weak")]
            "dropwn" => w.wroots.get(&o).map_or(0, |v| v.len()) >= g_u32(call, "n") as usize,
            "clonef" | "clear" => slot_state(a, k, i) == Some(true),
            "set" => has_root(b) && node_ok(a) && slot_state(a, k, i) == Some(false),
            // after giving up one handle of `o` the program must still be able to name `a`
            "put" => has_free_root(o) && node_ok(a) && slot_state(a, k, i) == Some(false)
                && (a != o || w.roots.get(&o).map_or(0, |v| v.len()) >= 2 || ctx_ptr(a).is_some()),
            "take" => slot_state(a, k, i) == Some(true),
            "dropval" => w.moved.contains_key(&o),
            #[cfg(feature = "weak")]
            "upgrade" | "clonew" | "dropw" | "wq" => w.wroots.get(&o).map_or(false, |v| !v.is_empty()),
            #[cfg(feature = "weak")]
            "setw" => w.wroots.get(&o).map_or(false, |v| !v.is_empty()) && slot_state(a, "w", i) == Some(false),
            #[cfg(feature = "weak")]
            "clearw" | "upgradef" => slot_state(a, "w", i) == Some(true),
            _ => false,
        }
    })
}

pub fn exec<P: Pad>(call: &Value) {
    let op = g_str(call, "op").to_string();
    let (o, a, b) = (g_u32(call, "o"), g_u32(call, "a"), g_u32(call, "b"));
    let k = g_str(call, "k").to_string();
    let i = g_u32(call, "i") as usize;
    match op.as_str() {
        "new" => {
            let (ns, np, nw) = with_world::<P, _>(|w| (w.ns, w.np, w.nw));
            let node = Node::<P>::new(o, ns, np, nw);
            let prev = CUR_NEW.with(|c| c.replace(o));
            let _r = Restore(&CUR_NEW, prev);
            with_world::<P, _>(|w| {
                w.created += 1;
                if o >= w.next_id {
                    w.next_id = o + 1;
                }
            });
            run_op::<P>(call, move || {
                let prev = PENDING_NEW.with(|c| c.replace(o));
                let _p = Restore(&PENDING_NEW, prev);
                let cc = Cc::new(node);
                PENDING_NEW.with(|c| c.set(0));
                with_world::<P, _>(|w| w.roots.entry(o).or_default().push(cc));
                json!({})
            });
        }
        "clone" => run_op::<P>(call, || {
            // clone never runs a callback, so it may run inside the table access
            with_world::<P, _>(|w| {
                let c = w.roots[&o][0].clone();
                w.roots.get_mut(&o).unwrap().push(c);
            });
            json!({})
        }),
        "clonen" => run_op::<P>(call, || {
            let n = g_u32(call, "n");
            with_world::<P, _>(|w| {
                for _ in 0..n {
                    let c = w.roots[&o][0].clone();
                    w.roots.get_mut(&o).unwrap().push(c);
                }
            });
            json!({})
        }),
        "dropn" => {
            let n = g_u32(call, "n") as usize;
            let hs: Vec<Cc<Node<P>>> = with_world::<P, _>(|w| {
                let v = w.roots.get_mut(&o).unwrap();
                let k = v.len() - n;
                v.split_off(k)
            });
            run_op::<P>(call, move || {
                drop(hs);
                json!({})
            });
        }
        #[cfg(feature = "weak")]
        "clonewn" => run_op::<P>(call, || {
            let n = g_u32(call, "n");
            with_world::<P, _>(|w| {
                for _ in 0..n {
                    let c = w.wroots[&o][0].clone();
                    w.wroots.get_mut(&o).unwrap().push(c);
                }
            });
            json!({})
        }),
        #[cfg(feature = "weak")]
        "dropwn" => {
            let n = g_u32(call, "n") as usize;
            let hs: Vec<weak::Weak<Node<P>>> = with_world::<P, _>(|w| {
                let v = w.wroots.get_mut(&o).unwrap();
                let k = v.len() - n;
                v.split_off(k)
            });
            run_op::<P>(call, move || {
                drop(hs);
                json!({})
            });
        }
        "clonef" => run_op::<P>(call, || {
            let t = with_world::<P, _>(|w| {
                let n = unsafe { node_ref(w, a) }.unwrap();
                let (t, c) = {
                    let s = slot_vec(n, &k).borrow();
                    let s = &s[i - 1];
                    (s.target, s.inner.as_ref().unwrap().clone())
                };
                w.roots.entry(t).or_default().push(c);
                t
            });
            json!({"o": t})
        }),
        "drop" => {
            let h = with_world::<P, _>(|w| w.roots.get_mut(&o).unwrap().pop().unwrap());
            run_op::<P>(call, move || {
                drop(h);
                json!({})
            });
        }
        "set" => run_op::<P>(call, || {
            with_world::<P, _>(|w| {
                let c = w.roots[&b][0].clone();
                let n = unsafe { node_ref(w, a) }.unwrap();
                let mut s = slot_vec(n, &k).borrow_mut();
                s[i - 1].target = b;
                s[i - 1].inner = Some(c);
            });
            json!({})
        }),
        "put" => run_op::<P>(call, || {
            // moves a program-held pointer into a field: no library call at all
            with_world::<P, _>(|w| {
                let c = w.roots.get_mut(&o).unwrap().pop().unwrap();
                let n = unsafe { node_ref(w, a) }.unwrap();
                let mut s = slot_vec(n, &k).borrow_mut();
                s[i - 1].target = o;
                s[i - 1].inner = Some(c);
            });
            json!({})
        }),
        "take" => run_op::<P>(call, || {
            let t = with_world::<P, _>(|w| {
                let n = unsafe { node_ref(w, a) }.unwrap();
                let (t, c) = {
                    let mut s = slot_vec(n, &k).borrow_mut();
                    (s[i - 1].target, s[i - 1].inner.take().unwrap())
                };
                w.roots.entry(t).or_default().push(c);
                t
            });
            json!({"o": t})
        }),
        "clear" => {
            let (t, c) = with_world::<P, _>(|w| {
                let n = unsafe { node_ref(w, a) }.unwrap();
                let mut s = slot_vec(n, &k).borrow_mut();
                (s[i - 1].target, s[i - 1].inner.take().unwrap())
            });
            let mut call2 = call.clone();
            call2["o"] = json!(t);
            run_op::<P>(&call2, move || {
                drop(c);
                json!({})
            });
        }
        "mark" => run_op::<P>(call, || {
            with_world::<P, _>(|w| w.roots[&o][0].mark_alive());
            json!({})
        }),
        "collect" => run_op::<P>(call, || {
            collect_cycles();
            json!({})
        }),
        "unwrap" => {
            let h = with_world::<P, _>(|w| w.roots.get_mut(&o).unwrap().pop().unwrap());
            run_op::<P>(call, move || {
                let before = rust_cc::verif_hooks::box_addr(&h);
                match h.try_unwrap() {
                    Ok(node) => {
                        let ok = node.canary_ok(o);
                        with_world::<P, _>(|w| {
                            w.moved.insert(o, node);
                        });
                        json!({"res": "ok", "vok": ok})
                    }
                    Err(cc) => {
                        let same = rust_cc::verif_hooks::box_addr(&cc) == before;
                        with_world::<P, _>(|w| w.roots.get_mut(&o).unwrap().push(cc));
                        json!({"res": "err", "same": same})
                    }
                }
            });
        }
        "dropval" => {
            let n = with_world::<P, _>(|w| w.moved.remove(&o).unwrap());
            run_op::<P>(call, move || {
                drop(n);
                json!({})
            });
        }
        #[cfg(feature = "fin")]
        "fagain" => run_op::<P>(call, || {
            // The program is allowed to probe: a panic of this call is caught right here
            // when it is made from inside a callback, so that the callback can go on.
            let nested = DEPTH.with(|d| d.get()) > 1;
            let f = || with_world::<P, _>(|w| w.roots.get_mut(&o).unwrap()[0].finalize_again());
            if nested {
                match catch_unwind(AssertUnwindSafe(f)) {
                    Ok(()) => json!({"res": "ok"}),
                    Err(p) => json!({"res": classify(&*p)}),
                }
            } else {
                f();
                json!({"res": "ok"})
            }
        }),
        #[cfg(feature = "weak")]
        "newcyc" => {
            let (ns, np, nw) = with_world::<P, _>(|w| (w.ns, w.np, w.nw));
            let prev = CUR_NEW.with(|c| c.replace(o));
            let _r = Restore(&CUR_NEW, prev);
            let prevm = CUR_META.with(|c| c.replace(o));
            let _rm = Restore(&CUR_META, prevm);
            with_world::<P, _>(|w| {
                w.created += 1;
                if o >= w.next_id {
                    w.next_id = o + 1;
                }
            });
            run_op::<P>(call, move || {
                let cc = Cc::new_cyclic(|wk: &weak::Weak<Node<P>>| crate::node::closure_body::<P>(o, ns, np, nw, wk));
                with_world::<P, _>(|w| w.roots.entry(o).or_default().push(cc));
                json!({})
            });
        }
        #[cfg(feature = "weak")]
        "wnew" => run_op::<P>(call, || {
            // Weak::new(): never upgrades, counts are zero, clones behave the same
            let w: weak::Weak<Node<P>> = weak::Weak::new();
            let w2 = w.clone();
            let up = w.upgrade().is_some() || w2.upgrade().is_some();
            let r = json!({"res": if up { "some" } else { "none" }, "wsc": w.strong_count() + w2.strong_count(), "wwc": w.weak_count() + w2.weak_count(),
                           "peq": weak::Weak::ptr_eq(&w, &w2)});
            drop(w);
            drop(w2);
            r
        }),
        #[cfg(feature = "weak")]
        "savew" => run_op::<P>(call, || {
            let p = PROVIDED.with(|c| c.get()) as *const weak::Weak<Node<P>>;
            let c = unsafe { (*p).clone() };
            with_world::<P, _>(|w| w.wroots.entry(o).or_default().push(c));
            json!({})
        }),
        #[cfg(feature = "weak")]
        "wprobe" => run_op::<P>(call, || {
            let p = PROVIDED.with(|c| c.get()) as *const weak::Weak<Node<P>>;
            let (up, sc) = unsafe { ((*p).upgrade(), (*p).strong_count()) };
            match up {
                Some(cc) => {
                    with_world::<P, _>(|w| w.roots.entry(o).or_default().push(cc));
                    json!({"res": "some", "wsc": sc})
                }
                None => json!({"res": "none", "wsc": sc}),
            }
        }),
        #[cfg(feature = "weak")]
        "downgrade" => {
            let prev = CUR_META.with(|c| c.replace(o));
            let _r = Restore(&CUR_META, prev);
            run_op::<P>(call, || {
                with_world::<P, _>(|w| {
                    let wk = w.roots[&o][0].downgrade();
                    w.wroots.entry(o).or_default().push(wk);
                });
                json!({})
            })
        }
        #[cfg(feature = "weak")]
        "upgrade" => run_op::<P>(call, || {
            with_world::<P, _>(|w| match w.wroots[&o][0].upgrade() {
                Some(cc) => {
                    let ok = cc.canary_ok(o);
                    w.roots.entry(o).or_default().push(cc);
                    json!({"res": "some", "vok": ok})
                }
                None => json!({"res": "none"}),
            })
        }),
        #[cfg(feature = "weak")]
        "clonew" => run_op::<P>(call, || {
            with_world::<P, _>(|w| {
                let c = w.wroots[&o][0].clone();
                w.wroots.get_mut(&o).unwrap().push(c);
            });
            json!({})
        }),
        #[cfg(feature = "weak")]
        "dropw" => {
            let h = with_world::<P, _>(|w| w.wroots.get_mut(&o).unwrap().pop().unwrap());
            run_op::<P>(call, move || {
                drop(h);
                json!({})
            });
        }
        #[cfg(feature = "weak")]
        "wq" => run_op::<P>(call, || json!({})),
        #[cfg(feature = "weak")]
        "setw" => run_op::<P>(call, || {
            with_world::<P, _>(|w| {
                let c = w.wroots[&o][0].clone();
                let n = unsafe { node_ref(w, a) }.unwrap();
                let mut s = n.wslots.borrow_mut();
                s[i - 1].target = o;
                s[i - 1].inner = Some(c);
            });
            json!({})
        }),
        #[cfg(feature = "weak")]
        "clearw" => {
            let (t, c) = with_world::<P, _>(|w| {
                let n = unsafe { node_ref(w, a) }.unwrap();
                let mut s = n.wslots.borrow_mut();
                (s[i - 1].target, s[i - 1].inner.take().unwrap())
            });
            let mut call2 = call.clone();
            call2["o"] = json!(t);
            run_op::<P>(&call2, move || {
                drop(c);
                json!({})
            });
        }
        #[cfg(feature = "weak")]
        "upgradef" => run_op::<P>(call, || {
            with_world::<P, _>(|w| {
                let n = unsafe { node_ref(w, a) }.unwrap();
                let (t, r) = {
                    let s = n.wslots.borrow();
                    (s[i - 1].target, s[i - 1].inner.as_ref().unwrap().upgrade())
                };
                match r {
                    Some(cc) => {
                        let ok = cc.canary_ok(t);
                        w.roots.entry(t).or_default().push(cc);
                        json!({"res": "some", "o": t, "vok": ok})
                    }
                    None => json!({"res": "none", "o": t}),
                }
            })
        }),
        #[cfg(feature = "clean")]
        "register" => {
            let c = g_u32(call, "c");
            let t = g_u32(call, "t");
            let mapid = 100 + a;
            let prev = CUR_NEW.with(|x| x.replace(mapid));
            let _r = Restore(&CUR_NEW, prev);
            let prevm = CUR_META.with(|x| x.replace(mapid));
            let _rm = Restore(&CUR_META, prevm);
            // the captured pointer is moved out of the program's handles into the closure
            let cap = with_world::<P, _>(|w| crate::node::CapSlot::<P> { owner: a, action: c, target: t, inner: if t != 0 { w.roots.get_mut(&t).unwrap().pop() } else { None } });
            if let Some(cc) = &cap.inner {
                caps_add(a, c, t, &**cc as *const Node<P> as usize);
            }
            REG_BORROWS.with(|b| b.borrow_mut().push(a));
            struct Unborrow(u32);
            impl Drop for Unborrow {
                fn drop(&mut self) {
                    REG_BORROWS.with(|b| {
                        let mut b = b.borrow_mut();
                        if let Some(i) = b.iter().position(|x| *x == self.0) {
                            b.remove(i);
                        }
                    });
                }
            }
            let _ub = Unborrow(a);
            run_op::<P>(call, move || {
                let np = with_world::<P, _>(|w| unsafe { node_ref(w, a) }.unwrap() as *const Node<P>);
                let n = unsafe { &*np };
                let cl = n.cleaner.inner.register(move || crate::node::action_body::<P>(c, cap));
                // the Cleaner owns a map from now on (a register that unwound out of its automatic collection created none)
                n.cleaner.registered.set(true);
                with_world::<P, _>(|w| {
                    w.cleanables.insert(c, Box::new(cl));
                });
                json!({})
            });
        }
        #[cfg(feature = "clean")]
        "clean" => {
            let c = g_u32(call, "c");
            // the handle stays where it is (an action may call clean() on it again)
            let p = with_world::<P, _>(|w| &**w.cleanables.get(&c).unwrap() as *const cleaners::Cleanable);
            run_op::<P>(call, move || {
                unsafe { (*p).clean() };
                json!({})
            });
        }
        #[cfg(feature = "clean")]
        "dropcl" => {
            let c = g_u32(call, "c");
            let cl = with_world::<P, _>(|w| w.cleanables.remove(&c).unwrap());
            run_op::<P>(call, move || {
                drop(cl);
                json!({})
            });
        }
        #[cfg(feature = "auto")]
        "setcfg" => run_op::<P>(call, || {
            let auto = call.get("auto").and_then(|v| v.as_bool()).unwrap_or(false);
            let pn = call.get("pn").and_then(|v| v.as_u64()).unwrap_or(1) as f64;
            let pd = call.get("pd").and_then(|v| v.as_u64()).unwrap_or(10) as f64;
            let bt = call.get("bt").and_then(|v| v.as_u64()).unwrap_or(0) as usize;
            let _ = config::config(|c| {
                c.set_auto_collect(auto);
                c.set_adjustment_percent(pn / pd);
                c.set_buffered_objects_threshold(std::num::NonZeroUsize::new(bt));
            });
            json!({})
        }),
        other => panic!("harness: unknown op {}", other),
    }
    let _ = b;
}
