mod support;
#[allow(unused, non_snake_case, non_camel_case_types, clippy::all)]
mod cases;

fn main() {
    rust_cc::config::config(|c| c.set_auto_collect(false)).unwrap();
    let which = std::env::args().nth(1).unwrap_or_default();
    let mut rep = support::Report::default();
    if which == "shapes" {
        cases::run_shapes(&mut rep);
    } else {
        cases::run_derives(&mut rep);
    }
    let fails: Vec<String> = rep.failures.iter().map(|f| format!("{:?}", f)).collect();
    println!("{{\"mode\":\"{}\",\"cases\":{},\"checks\":{},\"failures\":[{}]}}", which, rep.cases, rep.checks, fails.join(","));
}
