//! Runtime support for the generated shape / derive cases (C17, C18).
use rust_cc::*;
use std::cell::{Cell, RefCell};

thread_local! {
    pub static TR: RefCell<Vec<u32>> = const { RefCell::new(Vec::new()) };
    pub static FI: RefCell<Vec<u32>> = const { RefCell::new(Vec::new()) };
    pub static HOLDER: Cell<u32> = const { Cell::new(0) };
    pub static DROPS: Cell<u32> = const { Cell::new(0) };
}

pub fn reset(n: usize) {
    TR.with(|t| *t.borrow_mut() = vec![0; n]);
    FI.with(|t| *t.borrow_mut() = vec![0; n]);
    HOLDER.with(|h| h.set(0));
    DROPS.with(|h| h.set(0));
}
pub fn tr(i: usize) -> u32 {
    TR.with(|t| t.borrow()[i])
}
pub fn fi(i: usize) -> u32 {
    FI.with(|t| t.borrow()[i])
}
pub fn holder_calls() -> u32 {
    HOLDER.with(|h| h.get())
}
pub fn drops() -> u32 {
    DROPS.with(|h| h.get())
}
pub fn count_holder() {
    HOLDER.with(|h| h.set(h.get() + 1));
}
pub fn count_drop() {
    DROPS.with(|h| h.set(h.get() + 1));
}

/// A probe leaf: counts its own trace / finalize calls and owns (at most) one Cc.
pub struct P<H: Trace + 'static> {
    pub id: usize,
    pub link: RefCell<Option<Cc<H>>>,
}
pub fn p<H: Trace + 'static>(id: usize) -> P<H> {
    P { id, link: RefCell::new(None) }
}
unsafe impl<H: Trace + 'static> Trace for P<H> {
    fn trace(&self, ctx: &mut Context<'_>) {
        TR.with(|t| t.borrow_mut()[self.id] += 1);
        self.link.trace(ctx);
    }
}
impl<H: Trace + 'static> Finalize for P<H> {
    fn finalize(&self) {
        FI.with(|t| t.borrow_mut()[self.id] += 1);
    }
}

/// Target of the probes used in derive cases.
pub struct Anchor;
unsafe impl Trace for Anchor {
    fn trace(&self, _: &mut Context<'_>) {}
}
impl Finalize for Anchor {}

#[derive(Default)]
pub struct Report {
    pub cases: u64,
    pub checks: u64,
    pub failures: Vec<String>,
}
impl Report {
    pub fn check(&mut self, ok: bool, what: impl FnOnce() -> String) {
        self.checks += 1;
        if !ok && self.failures.len() < 40 {
            self.failures.push(what());
        }
    }
}

pub fn buffer<T: Trace + 'static>(h: &Cc<T>) {
    let c = h.clone();
    drop(c);
}
