use rust_cc::*;
#[derive(Trace, Finalize)]
#[rust_cc(unsafe_no_drop)]
enum E { A(Cc<u32>), B }
impl Drop for E { fn drop(&mut self) {} }
fn main() { let _ = E::B; let _ = E::A(Cc::new(1)); }
