use rust_cc::*;
#[derive(Trace, Finalize)]
struct G<T: Trace + 'static> { a: Cc<T> }
impl<T: Trace + 'static> Drop for G<T> { fn drop(&mut self) {} }
fn main() { let _ = G { a: Cc::new(1u32) }; }
