use rust_cc::*;
#[derive(Trace, Finalize)]
struct S(Cc<u32>, u8);
impl Drop for S { fn drop(&mut self) {} }
fn main() { let _ = S(Cc::new(1), 0); }
