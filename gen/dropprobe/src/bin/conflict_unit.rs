use rust_cc::*;
#[derive(Trace, Finalize)]
struct S;
impl Drop for S { fn drop(&mut self) {} }
fn main() { let _ = S; }
