// must compile: unsafe_no_drop suppresses the derived Drop impl
use rust_cc::*;
#[derive(Trace, Finalize)]
#[rust_cc(unsafe_no_drop)]
struct S { a: Cc<u32> }
impl Drop for S { fn drop(&mut self) {} }
fn main() { let _ = S { a: Cc::new(1) }; }
