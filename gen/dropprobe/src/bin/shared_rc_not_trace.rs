// a shared-ownership std pointer does not own its content exclusively: the crate must not let the collector trace through it
use rust_cc::*;
fn needs_trace<T: Trace>() {}
fn main() { needs_trace::<std::rc::Rc<Cc<u32>>>(); }
