use rust_cc::*;
#[derive(Trace, Finalize)]
enum E { A(Cc<u32>), #[rust_cc(ignore)] B { x: u8 }, C }
impl Drop for E { fn drop(&mut self) {} }
fn main() { let _ = E::C; let _ = E::A(Cc::new(1)); let _ = E::B { x: 1 }; }
