// control: the derive without a user Drop compiles
use rust_cc::*;
#[derive(Trace, Finalize)]
struct S { a: Cc<u32>, #[rust_cc(ignore)] b: std::rc::Rc<u8> }
fn main() { let _ = S { a: Cc::new(1), b: std::rc::Rc::new(0) }; }
