// must NOT compile: derive(Trace) emits a Drop impl, a user Drop impl conflicts (E0119)
use rust_cc::*;
#[derive(Trace, Finalize)]
struct S { a: Cc<u32>, #[rust_cc(ignore)] b: u8 }
impl Drop for S { fn drop(&mut self) {} }
fn main() { let _ = S { a: Cc::new(1), b: 0 }; }
