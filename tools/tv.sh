#!/bin/bash
# usage: tv.sh trace.ndjson -> one line per violation
/verif/bin_tv.sh "$1" | grep -E "VERDICT|rror|UNCONS" | python3 -c "
import sys,json,re
for l in sys.stdin:
    m=re.search(r'\"VERDICT\", \"(.*)\", \"EVENTS\", (\d+)',l)
    if m:
        v=json.loads(m.group(1).encode().decode('unicode_escape'))
        print('events',m.group(2),'runs with violations',len(v))
        for r in v:
            for p,d in sorted(r['viol'].items()): print(' run',r['run'],p,'line',d['n'],d['msg'],'[faulted]' if d['faulted'] else '')
    else: print(l.rstrip())
"
