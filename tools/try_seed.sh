#!/bin/bash
# usage: try_seed.sh <seed-id> <prop> [<prop>...]   (runs the quick checks against a scratch copy of /repo with the seeded patch applied)
id=$1; shift
T=/tmp/trial/$id
rm -rf $T; mkdir -p $T
rsync -a --exclude target --exclude .git /repo/ $T/repo/
mkdir -p $T/verif && git -C /verif archive HEAD | tar -x -C $T/verif   # committed state only: edits in progress never leak into a trial
(cd $T/repo && patch -p1 -s < /verif/seeded/$id/patch.diff) || { echo "patch failed"; exit 2; }
sed -i "s#path = \"/repo\"#path = \"$T/repo\"#" $T/verif/harness/Cargo.toml $T/verif/gen/shapes/Cargo.toml $T/verif/gen/dropprobe/Cargo.toml
cd $T/verif
# TLC engine results depend on spec/ only: share them with /verif's cache (symlink), so that a trial does not re-run TLC
H=$(python3 -c "import sys;sys.path.insert(0,'lib');import pipeline;print(pipeline.spec_hash())")
mkdir -p /verif/.cache/$H $T/verif/.cache && ln -s /verif/.cache/$H $T/verif/.cache/$H
for p in "$@"; do
  VERIF_REPO=$T/repo bin/check $p --tier ${TIER:-quick} > $T/$p.out 2>&1; rc=$?
  echo "seed=$id check=$p rc=$rc $(grep -c '^VIOLATION' $T/$p.out) violation line(s)"
  grep -A1 '^VIOLATION' $T/$p.out | grep clause | head -4
  grep -E "CONFORMANCE-DRIFT|TOOL-ERROR|HARNESS-INCONS" $T/$p.out | head -3
done
rm -rf $T/verif/harness/target $T/verif/.cache $T/repo
