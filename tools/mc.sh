#!/bin/bash
# usage: mc.sh CFG [extra tlc args] ; prints summary, and on violation the viol map and compact history
cfg=$1; shift
d=$(mktemp -d /tmp/mc.XXXXXX)
cd /verif/spec
JAVA_TOOL_OPTIONS="-Xss1g -Xmx24g" timeout ${MC_TIMEOUT:-1800} tlc -workers ${MC_WORKERS:-16} -metadir $d -cleanup -noGenerateSpecTE -config $cfg "$@" CcImpl.tla > $d.out 2>&1
python3 - $d.out <<'PY'
import sys,re
t=open(sys.argv[1],errors='replace').read()
t='\n'.join(l for l in t.splitlines() if not l.startswith('<<"RP"'))
for l in t.splitlines():
    if re.search(r'states generated|Error:|depth of the complete|Finished in|No error',l): print(l)
if 'Error:' in t:
    # last state
    i=t.rfind('State ')
    last=t[i:]
    m=re.search(r'viol \|->(.*?)\n\s*(cfg|stack|objs|seen|log|blocks|faulted|resur|lastbf|bytes|x|n) \|->',last,re.S)
    print('VIOL:',m.group(1).strip()[:1500] if m else last[-3000:][:100])
    h=last[last.find('/\\ hist ='):]
    evs=re.findall(r'\[[^\[\]]*?e \|-> "(call|cb|cbx|reset)"[^\[\]]*?\]',h)
    # crude compact history
    out=[]
    for mm in re.finditer(r'\[([^\[\]]*?)\]',h):
        b=mm.group(1)
        if 'e |-> "call"' in b or 'e |-> "cb"' in b or 'e |-> "cbx"' in b:
            d=dict(re.findall(r'(\w+) \|-> ("?[\w:]*"?)',b))
            out.append({k:v.strip('"') for k,v in d.items() if k in('e','op','o','a','k','i','b','cb','panic','j')})
    for o in out: print('  ',o)
    if not m: print(last[-2500:])
PY
rm -rf $d $d.out
