#!/bin/bash
# usage: reconfirm_seed.sh <seed-id>   re-runs the demonstration of a stored seed in a fresh scratch worktree:
# must fail with the patch and pass without it. Appends what was run to seeded/<id>/meta.json ("confirmed").
id=$1
S=/verif/seeded/$id
W=/tmp/rc/$id
rm -rf $W; mkdir -p /tmp/rc
git -C /repo worktree add -q --detach $W HEAD || exit 2
cp $S/seeded_demo.rs $W/tests/seeded_demo.rs
feat=$(python3 -c "
import json,re
m=re.search(r'--features[ =]([\w,-]+)', json.load(open('$S/meta.json'))['demo_cmd'])
print('--features '+m.group(1) if m else '')")
cd $W
without=$(cargo test --offline $feat --test seeded_demo 2>&1 | grep -E "^test result" | tail -1)
patch -p1 -s < $S/patch.diff || { echo "patch failed"; }
with=$(cargo test --offline $feat --test seeded_demo 2>&1 | grep -E "^test result|signal|abort" | tail -1)
echo "$id | without: $without | with: $with"
python3 - "$id" "$feat" "$without" "$with" <<'PY'
import json,sys
id,feat,wo,wi=sys.argv[1:5]
p='/verif/seeded/%s/meta.json'%id
m=json.load(open(p))
m['confirmed']={'cmd':'cargo test --offline %s --test seeded_demo (fresh worktree of /repo HEAD, patch applied with patch -p1)'%feat,'without_patch':wo,'with_patch':wi}
json.dump(m,open(p,'w'),indent=1)
PY
cd /; git -C /repo worktree remove --force $W
