#!/usr/bin/env python3
"""Reads a TLA+ value printed by TLC (records, sequences, sets, strings, numbers, booleans) from stdin and prints JSON."""
import sys, json, re
tok = re.compile(r'\s*(\|->|<<|>>|\[|\]|\{|\}|\(|\)|,|:>|@@|"(?:[^"\\]|\\.)*"|-?\d+|[A-Za-z_][A-Za-z_0-9]*)')
def parse(s):
    toks = tok.findall(s); pos = [0]
    def peek(): return toks[pos[0]] if pos[0] < len(toks) else None
    def nxt(): t = toks[pos[0]]; pos[0] += 1; return t
    def val():
        t = nxt()
        if t == '<<':
            out = []
            while peek() != '>>':
                out.append(val())
                if peek() == ',': nxt()
            nxt(); return out
        if t == '{':
            out = []
            while peek() != '}':
                out.append(val())
                if peek() == ',': nxt()
            nxt(); return out
        if t == '[':
            out = {}
            while peek() != ']':
                k = nxt(); assert nxt() == '|->', k
                out[k] = val()
                if peek() == ',': nxt()
            nxt(); return out
        if t == '(':
            out = {}
            while peek() != ')':
                k = val(); assert nxt() == ':>'
                out[str(k)] = val()
                if peek() == '@@': nxt()
            nxt(); return out
        if t.startswith('"'): return json.loads(t)
        if t in ('TRUE', 'FALSE'): return t == 'TRUE'
        if re.fullmatch(r'-?\d+', t): return int(t)
        return t
    return val()
if __name__ == '__main__':
    v = parse(sys.stdin.read())
    if isinstance(v, list):
        for e in v: print(json.dumps(e))
    else:
        print(json.dumps(v))
