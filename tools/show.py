#!/usr/bin/env python3
import sys,json
f,a,b=sys.argv[1],int(sys.argv[2]),int(sys.argv[3])
full=len(sys.argv)>4
depth=0
for i,l in enumerate(open(f),1):
    e=json.loads(l)
    if e['e'] in('cbx','ret'): depth-=1
    if e['e']=='reset': depth=0
    if a<=i<=b:
        if not full:
            for k in ['ad','rw','wk','thr','lk','wsz','by','align']: e.pop(k,None)
        print(i,'  '*max(depth,0)+json.dumps(e))
    if e['e'] in('cb','call'): depth+=1
