#!/bin/bash
# usage: confirm_seed.sh <worktree> <seed-id>
# Confirms a seeded change: compiles, existing tests pass with it, demo fails with it and passes without it.
wt=$1; id=$2
cd $wt || exit 2
demo=$(python3 -c "import json;print(json.load(open('meta.json'))['demo_cmd'])" | sed "s#cd [^ ]* && ##")
echo "demo: $demo"
git diff --stat -- src derive
echo "== existing tests with the change"
cargo test --offline --lib --test cc --test auto_collect 2>&1 | grep -E "^test result|FAILED" | head -6; cargo test --offline --features weak-ptrs,cleaners --lib --test weak_upgrade_tests 2>&1 | grep -E "^test result|FAILED" | head -4
echo "== demo with the change (must fail)"
$demo 2>&1 | grep -E "^test result|panicked|FAILED|error" | head -5
git diff -- src derive > /tmp/confirm_$id.diff; git apply -R /tmp/confirm_$id.diff
echo "== demo without the change (must pass)"
$demo 2>&1 | grep -E "^test result|panicked|FAILED|error" | head -5
git apply /tmp/confirm_$id.diff
mkdir -p /verif/seeded/$id
git diff -- src derive > /verif/seeded/$id/patch.diff
cp tests/seeded_demo.rs /verif/seeded/$id/ 2>/dev/null
cp meta.json /verif/seeded/$id/meta.json
rm -rf target
