SPECIFICATION Spec
CONSTANTS
  MaxK = 14
  MaxBytes = 2000000
  Step = 61
INVARIANT PolicyHolds
CHECK_DEADLOCK FALSE
