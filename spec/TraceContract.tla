--------------------------- MODULE TraceContract ---------------------------
(* Validates an ndjson trace recorded from the real crate against Contract. *)
EXTENDS Contract, Json, IOUtils

Rec == ndJsonDeserialize(IOEnv.TRACE)

VARIABLES l, mon
Init == l = 1 /\ mon = MonInit
Step == l <= Len(Rec) /\ mon' = Mon(mon, Rec[l]) /\ l' = l + 1
Spec == Init /\ [][Step]_<<l, mon>>

\* Always true; prints the verdict when the whole trace has been consumed.
Report == (l = Len(Rec) + 1) => PrintT(<<"VERDICT", ToJson(EndRun(mon).log), "EVENTS", Len(Rec)>>)
Accepted == IF TLCGet("stats").diameter = Len(Rec) + 1 THEN TRUE
            ELSE Print(<<"UNCONSUMED at", TLCGet("stats").diameter>>, FALSE)
=============================================================================
