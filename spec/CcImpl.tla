------------------------------- MODULE CcImpl -------------------------------
(***************************************************************************)
(* Implementation-grain specification of rust-cc (src/lib.rs, src/cc.rs,   *)
(* src/lists.rs, src/weak, src/state.rs): counters, marks, buffer order,   *)
(* work lists, the pass loop, drop guards and unwinding, phase flags.      *)
(* The environment (the user program) issues API calls at top level and    *)
(* from inside callbacks and injects panics.  Library code between two     *)
(* environment decision points is deterministic and is executed in one     *)
(* step by Run.  Every step emits the events the real code would emit;     *)
(* the contract monitor (Contract.tla) is folded over them.                *)
(***************************************************************************)
EXTENDS Contract, PolicyDefs, Json

CONSTANTS N, NS, NP, NW,            \* objects, traced / untraced / weak slots per object
          FIN, WEAK, DBG,           \* feature switches of the build that is modelled
          MAXRC, MAXWC, MaxRoots, MaxWRoots,
          MaxOps, MaxFaults, MaxTraceK,
          BUG_STALE_TC, BUG_NESTED_FLAGS, \* pre-fix behaviour (regression configs only)
          OPS,                      \* subset of Env operations enabled in this configuration
          AUTOF, AUTO0,             \* auto-collect feature compiled in / enabled at the start of the run
          SZ,                       \* size in bytes of an object box in the build that replays the behaviours
          CLEAN, MaxActs,           \* cleaners feature modelled / number of cleaning actions per behaviour
          RECORD,                   \* FALSE only in the liveness configuration (no monitor, no history)
          BUG_NESTED_DROP_FLAG,     \* pre-fix Cc::drop (sets `dropping` also when it runs inside a collection: defect 6)
          BUG_CLEAN_REENTRANT       \* pre-fix Cleanable::clean (action run while the map is borrowed and kept alive)

VARIABLES st, mon, hist
vars == <<st, mon, hist>>

Objs == 1..N
\* the CleanerMap of object o is itself a managed allocation (a Cc<CleanerMap> owned, untraced, by o's Cleaner)
MapOf(o) == 100 + o
MapIds == IF CLEAN THEN {MapOf(o) : o \in Objs} ELSE {}
IsMap(x) == x > 100
OwnerOf(x) == x - 100
AllIds == Objs \cup MapIds
MAPSZ == 80
Vacant == [c |-> 0, t |-> 0]
MSZ == 24

\* ------------------------------------------------------------------ helpers
RemoveSeq(sq, o) == SelectSeq(sq, LAMBDA x : x # o)
RECURSIVE SortedSeq(_)
SortedSeq(S) == IF S = {} THEN <<>> ELSE LET mn == CHOOSE x \in S : \A y \in S : x <= y IN <<mn>> \o SortedSeq(S \ {mn})
NonEmpty(sq) == SelectSeq(sq, LAMBDA x : x # 0)
Take(sq, n) == SubSeq(sq, 1, IF n < Len(sq) THEN n ELSE Len(sq))
Min2(a, b) == IF a < b THEN a ELSE b

Emit(s, e) == [s EXCEPT !.ev = Append(@, e)]
STop(s) == s.stack[Len(s.stack)]
SPush(s, f) == [s EXCEPT !.stack = Append(@, f)]
SPop(s) == [s EXCEPT !.stack = SubSeq(@, 1, Len(@) - 1)]
SetTop(s, f) == [s EXCEPT !.stack[Len(s.stack)] = f]
Frame(k, o, ph) == [k |-> k, o |-> o, ph |-> ph, i |-> 0, x |-> <<>>, sv |-> <<>>]

IsTracing(s) == s.col /\ ~s.fing /\ ~s.drp
\* the program is unwinding: drop glue of a value whose Drop::drop panicked is still running
Unwinding(s) == s.pan # "" \/ \E i \in DOMAIN s.stack : (s.stack[i].k \in {"glue", "mapdrop"} /\ s.stack[i].x # "") \/ (s.stack[i].k = "runact" /\ s.stack[i].x.pend # "")

Init0 ==
  [box |-> [o \in AllIds |-> "free"], rc |-> [o \in AllIds |-> 0], tc |-> [o \in AllIds |-> 0], mark |-> [o \in AllIds |-> "N"],
   fz |-> [o \in AllIds |-> FALSE], hm |-> [o \in AllIds |-> FALSE], dr |-> [o \in AllIds |-> FALSE],
   fs |-> [o \in Objs |-> [i \in 1..NS |-> 0]], fp |-> [o \in Objs |-> [i \in 1..NP |-> 0]], fw |-> [o \in Objs |-> [i \in 1..NW |-> 0]],
   meta |-> [o \in AllIds |-> [alive |-> FALSE, wc |-> 0, acc |-> FALSE]],
   \* cleaners: slot map of each object's Cleaner (0 = vacant slot, else [c, t]), its free list (LIFO), borrow flag,
   \* live Cleanable handles (action id -> owner), number of actions created
   slots |-> [o \in Objs |-> <<>>], free |-> [o \in Objs |-> <<>>], hasmap |-> [o \in Objs |-> FALSE], borrowed |-> [o \in Objs |-> FALSE],
   cls |-> <<>>, nact |-> 0,
   roots |-> [o \in Objs |-> 0], wroots |-> [o \in Objs |-> 0], moved |-> [o \in Objs |-> FALSE],
   pc |-> <<>>, pcSize |-> 0, buf |-> TRUE, rl |-> <<>>, nrl |-> <<>>, q |-> <<>>,
   col |-> FALSE, fing |-> FALSE, drp |-> FALSE, exec |-> 0, bytes |-> 0,
   cfg |-> [auto |-> AUTO0, pn |-> 1, pd |-> 10, bt |-> 0, thr |-> 100],
   stack |-> <<>>, pan |-> "", ft |-> <<>>, ntr |-> 0, nops |-> 0, nfaults |-> 0, ev |-> <<>>]

ResetEv == [e |-> "reset", fin |-> FIN, weak |-> WEAK, dbg |-> DBG, clean |-> CLEAN, auto |-> AUTO0, sz |-> SZ, ns |-> NS, np |-> NP, nw |-> NW, run |-> 0]

\* ------------------------------------------------------------------ primitives (cc.rs)
Unbuffer(s, o) == IF s.mark[o] = "P" /\ s.buf THEN [s EXCEPT !.mark[o] = "N", !.pc = RemoveSeq(@, o), !.pcSize = @ - 1] ELSE s
Buffer(s, o) == IF s.mark[o] # "P" /\ s.buf THEN [s EXCEPT !.pc = <<o>> \o @, !.pcSize = @ + 1, !.tc[o] = 0, !.mark[o] = "P"] ELSE s
WeakStrong(s, o) == IF ~s.meta[o].acc THEN 0
                    ELSE IF s.rc[o] = 0 \/ s.dr[o] \/ (s.mark[o] \in {"L", "Q"} /\ s.drp) THEN 0 ELSE s.rc[o]
MetaBlk(o) == 200 + o
SizeOf(o) == IF IsMap(o) THEN MAPSZ ELSE SZ
DropMeta(s, o) ==
  IF ~s.hm[o] THEN s
  ELSE IF s.meta[o].wc = 0
       THEN Emit([s EXCEPT !.meta[o] = [alive |-> FALSE, wc |-> 0, acc |-> FALSE]], [e |-> "dealloc", blk |-> MetaBlk(o), size |-> MSZ, align |-> 8, live |-> TRUE])
       ELSE [s EXCEPT !.meta[o].acc = FALSE]
FreeBox(s0, o) ==
  LET s == IF IsMap(o) THEN [s0 EXCEPT !.slots[OwnerOf(o)] = <<>>, !.free[OwnerOf(o)] = <<>>] ELSE s0 IN
  Emit([s EXCEPT !.box[o] = "free", !.rc[o] = 0, !.tc[o] = 0, !.mark[o] = "N", !.fz[o] = FALSE, !.hm[o] = FALSE, !.dr[o] = FALSE,
                 !.bytes = @ - SizeOf(o)],
       [e |-> "dealloc", blk |-> o, size |-> SizeOf(o), align |-> 8, live |-> TRUE])
DropWeakPtr(s, o) ==   \* Weak::drop
  LET s1 == [s EXCEPT !.meta[o].wc = @ - 1] IN
  IF s1.meta[o].wc = 0 /\ ~s1.meta[o].acc
  THEN Emit([s1 EXCEPT !.meta[o] = [alive |-> FALSE, wc |-> 0, acc |-> FALSE]], [e |-> "dealloc", blk |-> MetaBlk(o), size |-> MSZ, align |-> 8, live |-> TRUE])
  ELSE s1

\* ------------------------------------------------------------------ observation vector of a `ret`
CapsOf(s, o) == ({s.slots[o][i].t : i \in {j \in DOMAIN s.slots[o] : s.slots[o][j].c # 0}}
                 \cup {s.stack[i].x.t : i \in {j \in DOMAIN s.stack : s.stack[j].k = "runact" /\ s.stack[j].o = o /\ s.stack[j].ph \in {"cb", "cap"}}}) \ {0}
SPtrs(s, o) == ((Rng(s.fs[o]) \cup Rng(s.fp[o])) \ {0}) \cup (IF CLEAN THEN CapsOf(s, o) ELSE {})
RECURSIVE SClose(_, _)
SClose(s, S) == LET nxt == S \cup UNION {SPtrs(s, o) : o \in {x \in S : s.box[x] = "live" \/ s.moved[x]}}
                IN IF nxt = S THEN S ELSE SClose(s, nxt)
SReach(s) == SClose(s, {o \in Objs : s.roots[o] > 0 \/ s.moved[o]})
WcOf(s, o) == IF s.hm[o] THEN s.meta[o].wc ELSE 0
Obs(s) ==
  LET held == SortedSeq({o \in Objs : s.roots[o] > 0})
      wheld == SortedSeq({o \in Objs : s.wroots[o] > 0})
      rch == SortedSeq(SReach(s))
  IN [x |-> s.exec, by |-> s.bytes, bf |-> IF s.buf THEN s.pcSize ELSE -1, it |-> IsTracing(s),
      sc |-> [i \in DOMAIN held |-> <<held[i], s.rc[held[i]], IF WEAK THEN WcOf(s, held[i]) ELSE 0, IF FIN THEN s.fz[held[i]] ELSE FALSE>>],
      ad |-> [i \in DOMAIN held |-> <<held[i], held[i], 40, 0, TRUE, TRUE>>],
      rw |-> [i \in DOMAIN rch |-> <<rch[i], s.box[rch[i]] = "live" \/ s.moved[rch[i]]>>],
      walk |-> s.pc, wsz |-> IF s.buf THEN s.pcSize ELSE -1, lk |-> TRUE]
     @@ (IF AUTOF THEN [thr |-> s.cfg.thr] ELSE <<>>)
     @@ (IF WEAK THEN [wk |-> [i \in DOMAIN wheld |-> <<wheld[i], WeakStrong(s, wheld[i]), s.meta[wheld[i]].wc>>]] ELSE <<>>)

RetEv(s, op, extra) == [e |-> "ret", op |-> op, panic |-> ""] @@ extra @@ [res |-> ""] @@ Obs(s)
RetPanicEv(s, op) == [e |-> "ret", op |-> op, panic |-> s.pan, res |-> ""] @@ Obs(s)
CallEv(s, c) == c @@ [e |-> "call", x |-> s.exec]
\* creating operations also log what the trigger policy looks at
CallEvPol(s, c) == CallEv(s, c) @@ [by |-> s.bytes, bf |-> IF s.buf THEN s.pcSize ELSE -1] @@ (IF AUTOF THEN [thr |-> s.cfg.thr] ELSE <<>>)

\* ------------------------------------------------------------------ automatic collection policy (config.rs)
ShouldTrigger(s) == AUTOF /\ ~s.col /\ s.buf /\ s.cfg.auto /\ (s.bytes > s.cfg.thr \/ (s.cfg.bt # 0 /\ s.pcSize > s.cfg.bt))
Adjust(s) == IF AUTOF THEN [s EXCEPT !.cfg.thr = AdjustThr(@, s.bytes, s.cfg.pn, s.cfg.pd)] ELSE s

\* ------------------------------------------------------------------ Cc::drop (cc.rs:249), one pointer to o
CbEv(s, kind, o) == [e |-> "cb", cb |-> kind, o |-> o, it |-> IsTracing(s), ok |-> TRUE]
PushCb(s, kind, o) == SPush(Emit(s, CbEv(s, kind, o)), [Frame("cb", o, kind) EXCEPT !.x = kind])

\* push the frames that drop the value of o: Drop::drop callback first, then the drop glue of its fields
PushValueDrop(s, o) == PushCb(SPush(s, [Frame("glue", o, "next") EXCEPT !.i = 1, !.x = ""]), "drop", o)

CcDropStep(s) ==
  LET f == STop(s)  o == f.o IN
  CASE f.ph = "start" ->
         IF s.mark[o] \in {"L", "Q"} THEN SPop([s EXCEPT !.rc[o] = @ - 1])
         ELSE IF s.rc[o] = 1 THEN
           IF FIN /\ ~s.fz[o] /\ IsMap(o) THEN SetTop([s EXCEPT !.fz[o] = TRUE], [f EXCEPT !.ph = "dodrop"])   \* empty finalizer, no callback
           ELSE IF FIN /\ ~s.fz[o]
           THEN PushCb(SetTop([s EXCEPT !.fing = TRUE, !.fz[o] = TRUE], [f EXCEPT !.ph = "afterfin", !.sv = [f |-> s.fing]]), "finalize", o)
           ELSE SetTop(s, [f EXCEPT !.ph = "dodrop"])
         ELSE SPop(Buffer([s EXCEPT !.rc[o] = @ - 1], o))
    [] f.ph = "afterfin" ->
         IF s.rc[o] # 1
         THEN SPop([Buffer([s EXCEPT !.rc[o] = @ - 1], o) EXCEPT !.fing = f.sv.f])
         ELSE SetTop([s EXCEPT !.fing = f.sv.f], [f EXCEPT !.ph = "dodrop"])
    [] f.ph = "dodrop" ->
         LET s1 == Unbuffer([s EXCEPT !.rc[o] = @ - 1], o)
             s2 == [s1 EXCEPT !.drp = (BUG_NESTED_DROP_FLAG \/ ~s1.col \/ s1.drp), !.dr[o] = WEAK, !.box[o] = "dropped"]
         IN IF IsMap(o) THEN SPush(SetTop(s2, [f EXCEPT !.ph = "free", !.sv = [d |-> s.drp]]), [Frame("mapdrop", OwnerOf(o), "next") EXCEPT !.i = 1, !.x = ""])
            ELSE PushValueDrop(SetTop(s2, [f EXCEPT !.ph = "free", !.sv = [d |-> s.drp]]), o)
    [] f.ph = "free" ->
         LET s1 == FreeBox(DropMeta(s, o), o) IN SPop([s1 EXCEPT !.drp = f.sv.d])

CcDropUnwind(s) ==
  LET f == STop(s) IN
  CASE f.ph = "afterfin" -> SPop([s EXCEPT !.fing = f.sv.f])   \* count not decremented: the pointer leaks
    [] f.ph = "free" -> SPop([s EXCEPT !.drp = f.sv.d])        \* dropped value, allocation leaks
    [] OTHER -> SPop(s)

\* ------------------------------------------------------------------ drop glue of the fields of o
SlotCount == NS + NP + NW
SlotAt(s, o, j) == IF j <= NS THEN s.fs[o][j] ELSE IF j <= NS + NP THEN s.fp[o][j - NS] ELSE s.fw[o][j - NS - NP]
SlotKind(j) == IF j <= NS THEN "s" ELSE IF j <= NS + NP THEN "p" ELSE "w"
SlotIdx(j) == IF j <= NS THEN j ELSE IF j <= NS + NP THEN j - NS ELSE j - NS - NP
ClearSlot(s, o, j) == IF j <= NS THEN [s EXCEPT !.fs[o][j] = 0] ELSE IF j <= NS + NP THEN [s EXCEPT !.fp[o][j - NS] = 0] ELSE [s EXCEPT !.fw[o][j - NS - NP] = 0]
RECURSIVE NextFull(_, _, _)
NextFull(s, o, j) == IF j > SlotCount THEN 0 ELSE IF SlotAt(s, o, j) # 0 THEN j ELSE NextFull(s, o, j + 1)

GlueStep(s) ==
  LET f == STop(s)  o == f.o IN
  IF f.ph = "cret" THEN
    SetTop(Emit(s, [e |-> "ret", op |-> "gluec", a |-> o, k |-> "c", i |-> 0, panic |-> ""]), [f EXCEPT !.ph = "next"])
  ELSE IF f.ph = "ret" THEN
    SetTop(Emit(s, [e |-> "ret", op |-> "glue", a |-> o, k |-> SlotKind(f.i), i |-> SlotIdx(f.i), panic |-> ""]), [f EXCEPT !.ph = "next", !.i = @ + 1])
  ELSE
    LET j == NextFull(s, o, f.i) IN
    IF j = 0 /\ CLEAN /\ s.hasmap[o] THEN
      \* last field: the Cleaner; dropping it releases its Cc<CleanerMap>
      SPush(SetTop(Emit([s EXCEPT !.hasmap[o] = FALSE], [e |-> "call", op |-> "gluec", a |-> o]), [f EXCEPT !.ph = "cret", !.i = SlotCount + 1]),
            Frame("ccdrop", MapOf(o), "start"))
    ELSE IF j = 0 THEN
      \* all fields dropped; resume the panic of Drop::drop if there was one
      IF f.x # "" THEN [SPop(s) EXCEPT !.pan = f.x] ELSE SPop(s)
    ELSE
      LET t == SlotAt(s, o, j) IN
      IF SlotKind(j) = "w" THEN
        LET s1 == Emit(s, [e |-> "call", op |-> "gluew", a |-> o, k |-> "w", i |-> SlotIdx(j), o |-> t])
            s2 == DropWeakPtr(ClearSlot(s1, o, j), t)
            s3 == Emit(s2, [e |-> "ret", op |-> "gluew", a |-> o, k |-> "w", i |-> SlotIdx(j), panic |-> ""])
        IN SetTop(s3, [f EXCEPT !.i = j + 1])
      ELSE
        LET s1 == Emit(s, [e |-> "call", op |-> "glue", a |-> o, k |-> SlotKind(j), i |-> SlotIdx(j), o |-> t])
            s2 == SetTop(ClearSlot(s1, o, j), [f EXCEPT !.ph = "ret", !.i = j])
        IN SPush(s2, Frame("ccdrop", t, "start"))

\* a nested Cc::drop of field f.i panicked: the guard logs it, the remaining fields are still dropped
GlueUnwind(s) ==
  LET f == STop(s) IN
  IF f.ph = "cret"
  THEN [SetTop(Emit(s, [e |-> "ret", op |-> "gluec", a |-> f.o, k |-> "c", i |-> 0, panic |-> "unwind"]), [f EXCEPT !.ph = "next", !.x = s.pan]) EXCEPT !.pan = ""]
  ELSE IF f.ph = "ret"
  THEN [SetTop(Emit(s, [e |-> "ret", op |-> "glue", a |-> f.o, k |-> SlotKind(f.i), i |-> SlotIdx(f.i), panic |-> "unwind"]),
               [f EXCEPT !.ph = "next", !.i = @ + 1, !.x = s.pan]) EXCEPT !.pan = ""]
  ELSE \* Drop::drop itself panicked (the cb frame above was popped): fields are still dropped
       [SetTop(s, [f EXCEPT !.x = s.pan]) EXCEPT !.pan = ""]

\* ------------------------------------------------------------------ cleaners (cleaners/mod.rs)
RECURSIVE NextAct(_, _, _)
NextAct(s, o, j) == IF j > Len(s.slots[o]) THEN 0 ELSE IF s.slots[o][j].c # 0 THEN j ELSE NextAct(s, o, j + 1)
RunAct(o, rec) == [Frame("runact", o, "cb") EXCEPT !.x = [c |-> rec.c, t |-> rec.t, pend |-> ""]]
PushAct(s, c) == SPush(Emit(s, [e |-> "cb", cb |-> "action", o |-> c, it |-> IsTracing(s), ok |-> TRUE]), [Frame("cb", 0, "action") EXCEPT !.x = "action", !.i = c])

\* the SlotMap is dropped: every remaining action runs, in slot order
MapDropStep(s) ==
  LET f == STop(s)  o == f.o  j == NextAct(s, o, f.i) IN
  IF j = 0 THEN (IF f.x # "" THEN [SPop(s) EXCEPT !.pan = f.x] ELSE SPop(s))
  ELSE SPush(SetTop([s EXCEPT !.slots[o][j] = Vacant], [f EXCEPT !.i = j + 1]), RunAct(o, s.slots[o][j]))
MapDropUnwind(s) == LET f == STop(s) IN [SetTop(s, [f EXCEPT !.x = s.pan]) EXCEPT !.pan = ""]   \* remaining elements are still dropped

\* one cleaning action: the closure runs, then the Cc it captured (if any) is dropped
RunActStep(s) ==
  LET f == STop(s) IN
  CASE f.ph = "cb" -> PushAct(SetTop(s, [f EXCEPT !.ph = "cap"]), f.x.c)
    [] f.ph = "cap" ->
         IF f.x.t # 0
         THEN SPush(SetTop(Emit(s, [e |-> "call", op |-> "glue", a |-> f.o, k |-> "c", i |-> f.x.c, o |-> f.x.t]), [f EXCEPT !.ph = "capret"]), Frame("ccdrop", f.x.t, "start"))
         ELSE (IF f.x.pend # "" THEN [SPop(s) EXCEPT !.pan = f.x.pend] ELSE SPop(s))
    [] f.ph = "capret" ->
         LET s1 == SPop(Emit(s, [e |-> "ret", op |-> "glue", a |-> f.o, k |-> "c", i |-> f.x.c, panic |-> ""]))
         IN IF f.x.pend # "" THEN [s1 EXCEPT !.pan = f.x.pend] ELSE s1
RunActUnwind(s) ==
  LET f == STop(s) IN
  IF f.ph = "cap" /\ f.x.t # 0 THEN [SetTop(s, [f EXCEPT !.x.pend = s.pan]) EXCEPT !.pan = ""]   \* the captured Cc is dropped by the unwinding
  ELSE IF f.ph = "capret" THEN SPop(Emit(s, [e |-> "ret", op |-> "glue", a |-> f.o, k |-> "c", i |-> f.x.c, panic |-> "unwind"]))
  ELSE SPop(s)

\* ------------------------------------------------------------------ collection (lib.rs)
Children(s, p) == IF IsMap(p) THEN <<>> ELSE NonEmpty(s.fs[p])
\* Is the trace callback about to run the one that panics? returns j (children reported) or -1
FaultJ(s) == IF s.ft # <<>> /\ s.ft[1] = s.ntr /\ ~Unwinding(s) THEN s.ft[2] ELSE -1

CountChild(s, t) ==
  IF s.mark[t] \in {"L", "Q"} THEN
    LET s1 == [s EXCEPT !.tc[t] = @ + 1] IN
    IF s1.mark[t] = "L" /\ s1.rc[t] = s1.tc[t] THEN [s1 EXCEPT !.rl = RemoveSeq(@, t), !.nrl = <<t>> \o @] ELSE s1
  ELSE IF s.mark[t] = "P" THEN [s EXCEPT !.tc[t] = @ + 1]
  ELSE [s EXCEPT !.tc[t] = 1, !.q = Append(@, t), !.mark[t] = "Q"]
RECURSIVE CountChildren(_, _, _)
CountChildren(s, ch, i) == IF i > Len(ch) THEN s ELSE CountChildren(CountChild(s, ch[i]), ch, i + 1)

RootChild(s, t) ==
  IF s.mark[t] = "L" /\ s.rc[t] = s.tc[t] THEN [s EXCEPT !.nrl = RemoveSeq(@, t), !.q = Append(@, t), !.mark[t] = "Q"] ELSE s
RECURSIVE RootChildren(_, _, _)
RootChildren(s, ch, i) == IF i > Len(ch) THEN s ELSE RootChildren(RootChild(s, ch[i]), ch, i + 1)

TraceCount(s0, p) ==
  IF IsMap(p) THEN  \* CleanerMap::trace is empty and is not a user callback
    IF s0.rc[p] = s0.tc[p] THEN [s0 EXCEPT !.nrl = <<p>> \o @, !.mark[p] = "L"] ELSE [s0 EXCEPT !.rl = <<p>> \o @, !.mark[p] = "L"]
  ELSE
  LET s == [s0 EXCEPT !.mark[p] = "Q"]
      fj == FaultJ(s)
      ch == IF fj >= 0 THEN Take(Children(s, p), fj) ELSE Children(s, p)
      s1 == Emit(s, CbEv(s, "trace", p))
      s2 == [CountChildren(s1, ch, 1) EXCEPT !.ntr = @ + 1]
  IN IF fj >= 0
     THEN [Emit(s2, [e |-> "cbx", cb |-> "trace", o |-> p, panic |-> TRUE, j |-> Len(ch)]) EXCEPT !.mark[p] = "N", !.pan = "inj", !.ft = <<>>, !.nfaults = @ + 1]
     ELSE LET s3 == Emit(s2, [e |-> "cbx", cb |-> "trace", o |-> p, panic |-> FALSE])
          IN IF s3.rc[p] = s3.tc[p] THEN [s3 EXCEPT !.nrl = <<p>> \o @, !.mark[p] = "L"] ELSE [s3 EXCEPT !.rl = <<p>> \o @, !.mark[p] = "L"]

TraceRoot(s, p) ==
  IF IsMap(p) THEN s ELSE
  LET fj == FaultJ(s)
      ch == IF fj >= 0 THEN Take(Children(s, p), fj) ELSE Children(s, p)
      s1 == Emit(s, CbEv(s, "trace", p))
      s2 == [RootChildren(s1, ch, 1) EXCEPT !.ntr = @ + 1]
  IN IF fj >= 0
     THEN [Emit(s2, [e |-> "cbx", cb |-> "trace", o |-> p, panic |-> TRUE, j |-> Len(ch)]) EXCEPT !.pan = "inj", !.ft = <<>>, !.nfaults = @ + 1]
     ELSE Emit(s2, [e |-> "cbx", cb |-> "trace", o |-> p, panic |-> FALSE])

StartCollect(s) ==   \* collect(): push the frame
  LET fr == [Frame("collect", 0, "pass") EXCEPT !.x = [passes |-> 0, hasfin |-> FALSE, sf |-> FALSE, sd |-> FALSE], !.sv = [f |-> s.fing, d |-> s.drp]]
      s1 == [s EXCEPT !.col = TRUE, !.exec = @ + 1]
      s2 == IF BUG_NESTED_FLAGS THEN s1 ELSE [s1 EXCEPT !.fing = FALSE, !.drp = FALSE]
  IN SPush(s2, fr)

EndCollect(s) == LET f == STop(s) IN SPop([s EXCEPT !.col = FALSE, !.fing = f.sv.f, !.drp = f.sv.d])

RECURSIVE FreeAll(_, _, _)
FreeAll(s, l, i) == IF i > Len(l) THEN s ELSE FreeAll(FreeBox(DropMeta(s, l[i]), l[i]), l, i + 1)

CollectStep(s) ==
  LET f == STop(s) IN
  CASE f.ph = "pass" ->
         IF f.x.passes = (IF FIN THEN 10 ELSE 1) \/ s.pc = <<>> THEN EndCollect(s)
         ELSE SetTop(s, [f EXCEPT !.ph = "count", !.x.passes = @ + 1])
    [] f.ph = "count" ->
         IF s.pc # <<>> THEN
           LET p == Head(s.pc) IN TraceCount([s EXCEPT !.pc = Tail(@), !.pcSize = @ - 1, !.mark[p] = "N"], p)
         ELSE IF s.q # <<>> THEN
           LET p == Head(s.q) IN TraceCount([s EXCEPT !.q = Tail(@), !.mark[p] = "N"], p)
         ELSE SetTop(s, [f EXCEPT !.ph = "roots"])
    [] f.ph = "roots" ->
         IF s.rl # <<>> THEN
           LET p == Head(s.rl) IN TraceRoot([s EXCEPT !.rl = Tail(@), !.mark[p] = "N"], p)
         ELSE IF s.q # <<>> THEN
           LET p == Head(s.q) IN TraceRoot([s EXCEPT !.q = Tail(@), !.mark[p] = "N"], p)
         ELSE IF s.nrl = <<>> THEN SetTop(s, [f EXCEPT !.ph = "pass"])
         ELSE IF FIN THEN SetTop([s EXCEPT !.fing = TRUE], [f EXCEPT !.ph = "fin", !.i = 1, !.x.hasfin = FALSE, !.x.sf = s.fing])
         ELSE SetTop([s EXCEPT !.drp = TRUE], [f EXCEPT !.ph = "drop", !.i = 1, !.x.sd = s.drp])
    [] f.ph = "fin" ->
         IF f.i <= Len(s.nrl) THEN
           LET p == s.nrl[f.i] IN
           IF ~s.fz[p]
           THEN PushCb(SetTop([s EXCEPT !.fz[p] = TRUE], [f EXCEPT !.i = @ + 1, !.x.hasfin = TRUE]), "finalize", p)
           ELSE SetTop(s, [f EXCEPT !.i = @ + 1])
         ELSE
           LET s1 == [s EXCEPT !.fing = f.x.sf] IN
           IF ~f.x.hasfin THEN SetTop([s1 EXCEPT !.drp = TRUE], [f EXCEPT !.ph = "drop", !.i = 1, !.x.sd = s1.drp])
           ELSE \* put the list back into the buffer, in front of what finalizers buffered meanwhile
             LET l == s1.nrl
                 s2 == [s1 EXCEPT !.pc = l \o @, !.pcSize = Len(l) + @, !.nrl = <<>>,
                                  !.tc = [o \in AllIds |-> IF o \in Rng(l) THEN 0 ELSE @[o]],
                                  !.mark = [o \in AllIds |-> IF o \in Rng(l) THEN "P" ELSE @[o]]]
             IN SetTop(s2, [f EXCEPT !.ph = "pass"])
    [] f.ph = "drop" ->
         IF f.i <= Len(s.nrl) THEN
           LET p == s.nrl[f.i] IN
           PushValueDrop(SetTop([s EXCEPT !.dr[p] = WEAK, !.box[p] = "dropped"], [f EXCEPT !.i = @ + 1]), p)
         ELSE
           LET s1 == FreeAll(s, s.nrl, 1) IN SetTop([s1 EXCEPT !.nrl = <<>>, !.drp = f.x.sd], [f EXCEPT !.ph = "pass"])

Unmark(s, l) == [s EXCEPT !.mark = [o \in AllIds |-> IF o \in Rng(l) THEN "N" ELSE @[o]]]
CollectUnwind(s) ==
  LET f == STop(s)
      s1 == CASE f.ph \in {"count", "roots"} ->
                   LET a == Unmark(s, s.rl \o s.nrl \o s.q)
                       b == IF f.ph = "count" /\ ~BUG_STALE_TC
                            THEN [a EXCEPT !.tc = [o \in AllIds |-> IF o \in Rng(a.pc) THEN 0 ELSE @[o]]] ELSE a
                   IN [b EXCEPT !.rl = <<>>, !.nrl = <<>>, !.q = <<>>]
              [] f.ph = "fin" -> [Unmark(s, s.nrl) EXCEPT !.nrl = <<>>, !.fing = f.x.sf]
              [] f.ph = "drop" ->
                   LET a == Unmark(s, s.nrl)
                       b == IF WEAK THEN [a EXCEPT !.dr = [o \in AllIds |-> IF o \in Rng(s.nrl) THEN TRUE ELSE @[o]]] ELSE a
                   IN [b EXCEPT !.nrl = <<>>, !.drp = f.x.sd]
              [] OTHER -> s
  IN EndCollect(s1)

\* ------------------------------------------------------------------ operation frames
\* x of an op frame = the call event (plus adj: run the threshold adjustment when the operation completes)
ClearPlan(s) == [s EXCEPT !.ft = IF Len(s.stack) = 0 THEN <<>> ELSE @, !.ntr = IF Len(s.stack) = 0 THEN 0 ELSE @]
AllocNew(s, o) ==
  Emit([s EXCEPT !.box[o] = "live", !.rc[o] = 1, !.tc[o] = 0, !.mark[o] = "N", !.fz[o] = FIN /\ s.fing, !.hm[o] = FALSE, !.dr[o] = FALSE,
                 !.roots[o] = 1, !.bytes = @ + SZ],
       [e |-> "alloc", k |-> "box", o |-> o, blk |-> o, size |-> SZ, align |-> 8])

OpDone(s) ==
  LET f == STop(s)  c == f.x  op == c.op
      adj(t) == IF "adj" \in DOMAIN c /\ c.adj THEN Adjust(t) ELSE t
  IN
  IF op = "new" THEN
    LET s2 == AllocNew(adj(SPop(s)), c.o) IN ClearPlan(Emit(s2, RetEv(s2, op, <<>>)))
  ELSE IF op = "newcyc" /\ f.ph = "pre" THEN
    \* allocate the box (value uninitialised, strong count forced to 0) and the side record, then run the closure
    LET o == c.o
        s1 == adj(s)
        s2 == Emit([s1 EXCEPT !.box[o] = "uninit", !.rc[o] = 0, !.tc[o] = 0, !.mark[o] = "N", !.fz[o] = FIN /\ s1.fing, !.hm[o] = TRUE, !.dr[o] = FALSE,
                              !.meta[o] = [alive |-> TRUE, wc |-> 1, acc |-> TRUE], !.bytes = @ + SZ],
                   [e |-> "alloc", k |-> "box", o |-> o, blk |-> o, size |-> SZ, align |-> 8])
        s3 == Emit(s2, [e |-> "alloc", k |-> "meta", o |-> o, blk |-> MetaBlk(o), size |-> MSZ, align |-> 8])
    IN PushCb(SetTop(s3, [f EXCEPT !.ph = "closure", !.x = [c EXCEPT !.adj = FALSE]]), "closure", o)
  ELSE IF op = "newcyc" THEN
    LET o == c.o
        s1 == SPop(s)
        s2 == [s1 EXCEPT !.box[o] = "live", !.rc[o] = 1, !.roots[o] = 1]
        s3 == IF f.i = 1 THEN [s2 EXCEPT !.fw[o][1] = o, !.meta[o].wc = @ + 1] ELSE s2
        s4 == DropWeakPtr(s3, o)     \* the Weak handed to the closure goes away
    IN ClearPlan(Emit(s4, RetEv(s4, op, <<>>)))
  ELSE IF op = "register" THEN
    LET a == c.a  m == MapOf(a)
        s1 == adj(SPop(s))
        \* the map was missing at the call: Cc::new(map) ran (with its automatic collection, already done);
        \* if a nested register created the map meanwhile, the new empty one is dropped again at once
        s2 == IF s1.hasmap[a] THEN
                (IF c.fresh
                 THEN Emit(Emit(s1, [e |-> "alloc", k |-> "box", o |-> m + 50, blk |-> m + 50, size |-> MAPSZ, align |-> 8]),
                           [e |-> "dealloc", blk |-> m + 50, size |-> MAPSZ, align |-> 8, live |-> TRUE])
                 ELSE s1)
              ELSE Emit([s1 EXCEPT !.box[m] = "live", !.rc[m] = 1, !.tc[m] = 0, !.mark[m] = "N", !.fz[m] = FIN /\ s1.fing, !.hm[m] = FALSE, !.dr[m] = FALSE,
                                   !.hasmap[a] = TRUE, !.bytes = @ + MAPSZ],
                        [e |-> "alloc", k |-> "box", o |-> m, blk |-> m, size |-> MAPSZ, align |-> 8])
        \* SlotMap::insert: most recently vacated slot first, else a new slot at the end
        idx == IF s2.free[a] # <<>> THEN s2.free[a][Len(s2.free[a])] ELSE Len(s2.slots[a]) + 1
        s3 == [s2 EXCEPT !.slots[a] = IF idx <= Len(@) THEN [@ EXCEPT ![idx] = [c |-> c.c, t |-> c.t]] ELSE Append(@, [c |-> c.c, t |-> c.t]),
                         !.free[a] = IF @ # <<>> THEN SubSeq(@, 1, Len(@) - 1) ELSE @]
        \* the Cleanable is a Weak to the map
        s4 == IF s3.hm[m] THEN s3
              ELSE Emit([s3 EXCEPT !.hm[m] = TRUE, !.meta[m] = [alive |-> TRUE, wc |-> 0, acc |-> TRUE]],
                        [e |-> "alloc", k |-> "meta", o |-> m, blk |-> MetaBlk(m), size |-> MSZ, align |-> 8])
        s5 == Unbuffer([s4 EXCEPT !.meta[m].wc = @ + 1, !.cls = (c.c :> a) @@ @], m)
    IN ClearPlan(Emit(s5, RetEv(s5, op, <<>>)))
  ELSE IF op = "clean" /\ f.ph = "unb" THEN
    \* pre-fix order: the action ran under the borrow; now release it and the temporary Cc
    SPush(SetTop([s EXCEPT !.borrowed[c.a] = FALSE], [f EXCEPT !.ph = "fin"]), Frame("ccdrop", MapOf(c.a), "start"))
  ELSE
    LET s2 == adj(SPop(s)) IN ClearPlan(Emit(s2, RetEv(s2, op, <<>>)))

OpUnwind(s) ==
  LET f == STop(s)  c == f.x  op == c.op
      s1 == IF op = "newcyc" /\ f.ph = "closure"
            THEN DropWeakPtr(FreeBox(DropMeta(s, c.o), c.o), c.o)     \* PanicGuard, then the provided Weak
            ELSE IF op = "new"
            \* the value handed to Cc::new is dropped by the unwinding (it never reached an allocation)
            THEN Emit(Emit(s, CbEv(s, "drop", c.o)), [e |-> "cbx", cb |-> "drop", o |-> c.o, panic |-> FALSE])
            ELSE s
      s2 == SPop(s1)
  IN IF Len(s2.stack) = 0
     THEN [Emit(s2, RetPanicEv(s2, op)) EXCEPT !.pan = "", !.ft = <<>>, !.ntr = 0]    \* caught by the program at top level
     ELSE Emit(s2, [e |-> "ret", op |-> op, res |-> "", panic |-> "unwind", x |-> s2.exec])

\* ------------------------------------------------------------------ the deterministic part
NeedsEnv(s) == s.stack = <<>> \/ (STop(s).k = "cb" /\ s.pan = "")

Step1(s) ==
  LET f == STop(s) IN
  IF s.pan # "" THEN
    CASE f.k = "cb" -> SPop(Emit(s, [e |-> "cbx", cb |-> f.x, o |-> IF f.x = "action" THEN f.i ELSE f.o, panic |-> TRUE]))
      [] f.k = "mapdrop" -> MapDropUnwind(s)
      [] f.k = "runact" -> RunActUnwind(s)
      [] f.k = "ccdrop" -> CcDropUnwind(s)
      [] f.k = "glue" -> GlueUnwind(s)
      [] f.k = "collect" -> CollectUnwind(s)
      [] f.k = "op" -> OpUnwind(s)
  ELSE
    CASE f.k = "ccdrop" -> CcDropStep(s)
      [] f.k = "mapdrop" -> MapDropStep(s)
      [] f.k = "runact" -> RunActStep(s)
      [] f.k = "glue" -> GlueStep(s)
      [] f.k = "collect" -> CollectStep(s)
      [] f.k = "op" -> OpDone(s)

RECURSIVE Run(_)
Run(s) == IF NeedsEnv(s) THEN s ELSE Run(Step1(s))

\* ------------------------------------------------------------------ environment
CbTop(s) == IF s.stack = <<>> THEN "" ELSE STop(s).x          \* kind of the running callback ("" at top level)
SelfOf(s) == IF s.stack = <<>> THEN 0 ELSE STop(s).o
OpenSelves(s) == {s.stack[i].o : i \in {j \in DOMAIN s.stack : s.stack[j].k = "cb" /\ s.stack[j].x \notin {"closure", "action"}}}
\* objects whose fields the program can name: through a handle, a moved-out value, or `self` of a running callback
Acc(s) == {o \in Objs : s.roots[o] > 0 \/ s.moved[o]} \cup OpenSelves(s)
Full(s) == CbTop(s) \in {"", "finalize", "closure", "action"}   \* full vocabulary (not in Drop impls)
MapGone(s, o) == IF ~CLEAN THEN TRUE
                 ELSE (~s.hasmap[o] /\ s.box[MapOf(o)] = "free" /\ ~s.meta[MapOf(o)].alive /\ s.slots[o] = <<>>
                       /\ \A c \in DOMAIN s.cls : s.cls[c] # o)
FreeId(s, o) == s.box[o] = "free" /\ ~s.meta[o].alive /\ MapGone(s, o) /\ s.roots[o] = 0 /\ s.wroots[o] = 0 /\ ~s.moved[o]
                /\ \A a \in Objs : o \notin Rng(s.fs[a]) \cup Rng(s.fp[a]) \cup Rng(s.fw[a]) \cup (IF CLEAN THEN CapsOf(s, a) ELSE {})
                /\ o \notin {s.stack[i].o : i \in DOMAIN s.stack}
                /\ o \notin {s.stack[i].x.o : i \in {j \in DOMAIN s.stack : s.stack[j].k = "op" /\ s.stack[j].x.op \in {"new", "newcyc"}}}
\* `owner.cleaner.register(..)` borrows the handle through which the owner was named for the whole call (which may run a
\* collection, i.e. user code): that handle cannot be given up by code running inside the call
Borrowed(s, o) == Cardinality({i \in DOMAIN s.stack : s.stack[i].k = "op" /\ s.stack[i].x.op = "register" /\ s.stack[i].x.a = o})
Budget(s) == s.nops < MaxOps
Begin(s) == [s EXCEPT !.ev = <<>>, !.nops = @ + 1]
SlotsOf(s, a, k) == IF k = "p" THEN s.fp[a] ELSE s.fs[a]
Kinds == (IF NS > 0 THEN {"s"} ELSE {}) \cup (IF NP > 0 THEN {"p"} ELSE {})
SetSlot(s, a, k, i, v) == IF k = "p" THEN [s EXCEPT !.fp[a][i] = v] ELSE [s EXCEPT !.fs[a][i] = v]

\* atomic operations: call + effect + ret in one step
EnvNew(s, o, ft) ==
  LET trig == ShouldTrigger(s)
      s1 == Emit([s EXCEPT !.ft = IF s.stack = <<>> /\ trig THEN ft ELSE @], CallEvPol(s, [op |-> "new", o |-> o]))
      s2 == SPush(s1, [Frame("op", 0, "pre") EXCEPT !.x = [op |-> "new", o |-> o, adj |-> trig]])
  IN IF trig THEN StartCollect(s2) ELSE s2

EnvNewCyc(s, o, ft) ==
  LET trig == ShouldTrigger(s)
      s1 == Emit([s EXCEPT !.ft = IF s.stack = <<>> /\ trig THEN ft ELSE @], CallEvPol(s, [op |-> "newcyc", o |-> o]))
      s2 == SPush(s1, [Frame("op", 0, "pre") EXCEPT !.x = [op |-> "newcyc", o |-> o, adj |-> trig]])
  IN IF trig THEN StartCollect(s2) ELSE s2

EnvWNew(s) ==       \* Weak::new(): dead for ever
  LET s1 == Emit(s, CallEv(s, [op |-> "wnew"])) IN Emit(s1, RetEv(s1, "wnew", [res |-> "none", wsc |-> 0, wwc |-> 0, peq |-> TRUE]))
EnvSaveW(s, o) ==   \* inside the new_cyclic closure: keep a clone of the provided Weak
  LET s1 == Emit(s, CallEv(s, [op |-> "savew", o |-> o]))
      s2 == [s1 EXCEPT !.meta[o].wc = @ + 1, !.wroots[o] = @ + 1]
  IN Emit(s2, RetEv(s2, "savew", <<>>))
EnvWProbe(s, o) ==  \* inside the closure: the provided Weak must be dead
  LET s1 == Emit(s, CallEv(s, [op |-> "wprobe", o |-> o]))
  IN Emit(s1, RetEv(s1, "wprobe", [res |-> "none", wsc |-> WeakStrong(s1, o)]))

EnvSetCfg(s, c) ==
  LET s1 == Emit(s, CallEv(s, [op |-> "setcfg", auto |-> c.auto, pn |-> c.pn, pd |-> c.pd, bt |-> c.bt]))
      s2 == [s1 EXCEPT !.cfg = [auto |-> c.auto, pn |-> c.pn, pd |-> c.pd, bt |-> c.bt, thr |-> @.thr]]
  IN Emit(s2, RetEv(s2, "setcfg", <<>>))
CfgChoices == {[auto |-> a, pn |-> p[1], pd |-> p[2], bt |-> b] : a \in BOOLEAN, p \in {<<1, 10>>, <<0, 1>>, <<1, 1>>}, b \in {0, 1}}

EnvClone(s, o) ==
  LET s1 == Emit(s, CallEv(s, [op |-> "clone", o |-> o]))
      s2 == Unbuffer([s1 EXCEPT !.rc[o] = @ + 1, !.roots[o] = @ + 1], o)
  IN Emit(s2, RetEv(s2, "clone", <<>>))

EnvCloneF(s, a, k, i) ==
  LET t == SlotsOf(s, a, k)[i]
      s1 == Emit(s, CallEv(s, [op |-> "clonef", a |-> a, k |-> k, i |-> i]))
      s2 == Unbuffer([s1 EXCEPT !.rc[t] = @ + 1, !.roots[t] = @ + 1], t)
  IN Emit(s2, RetEv(s2, "clonef", [o |-> t]))

EnvSet(s, a, k, i, b) ==
  LET s1 == Emit(s, CallEv(s, [op |-> "set", a |-> a, k |-> k, i |-> i, b |-> b]))
      s2 == SetSlot(Unbuffer([s1 EXCEPT !.rc[b] = @ + 1], b), a, k, i, b)
  IN Emit(s2, RetEv(s2, "set", <<>>))

EnvPut(s, a, k, i, o) ==     \* the program moves one of its handles into a field (no library call)
  LET s1 == Emit(s, CallEv(s, [op |-> "put", a |-> a, k |-> k, i |-> i, o |-> o]))
      s2 == SetSlot([s1 EXCEPT !.roots[o] = @ - 1], a, k, i, o)
  IN Emit(s2, RetEv(s2, "put", <<>>))
EnvTake(s, a, k, i) ==       \* the program moves a field out into a handle
  LET t == SlotsOf(s, a, k)[i]
      s1 == Emit(s, CallEv(s, [op |-> "take", a |-> a, k |-> k, i |-> i]))
      s2 == SetSlot([s1 EXCEPT !.roots[t] = @ + 1], a, k, i, 0)
  IN Emit(s2, RetEv(s2, "take", [o |-> t]))

EnvMark(s, o) ==
  LET s1 == Emit(s, CallEv(s, [op |-> "mark", o |-> o]))  s2 == Unbuffer(s1, o) IN Emit(s2, RetEv(s2, "mark", <<>>))

EnvUnwrap(s, o) ==
  LET s1 == Emit([s EXCEPT !.roots[o] = @ - 1], CallEv(s, [op |-> "unwrap", o |-> o])) IN
  IF s.rc[o] # 1 \/ s.col \/ s.drp \/ (FIN /\ s.fing)
  THEN LET s2 == [s1 EXCEPT !.roots[o] = @ + 1] IN Emit(s2, RetEv(s2, "unwrap", [res |-> "err", same |-> TRUE]))
  ELSE LET s2 == FreeBox(DropMeta(Unbuffer(s1, o), o), o)
           s3 == [s2 EXCEPT !.moved[o] = TRUE]
       IN Emit(s3, RetEv(s3, "unwrap", [res |-> "ok", vok |-> TRUE]))

EnvFAgain(s, o) ==
  LET s1 == Emit(s, CallEv(s, [op |-> "fagain", o |-> o])) IN
  IF s.col \/ s.fing \/ s.drp
  THEN IF s.stack = <<>>
       THEN Emit(s1, [RetEv(s1, "fagain", <<>>) EXCEPT !.panic = "fagain"])   \* documented panic, caught at top level
       ELSE Emit(s1, RetEv(s1, "fagain", [res |-> "fagain"]))                 \* probe made inside a callback: caught there
  ELSE LET s2 == [s1 EXCEPT !.fz[o] = FALSE] IN Emit(s2, RetEv(s2, "fagain", [res |-> "ok"]))


\* ---- weak pointers (weak/mod.rs)
EnvDowngrade(s, o) ==
  LET s1 == Emit(s, CallEv(s, [op |-> "downgrade", o |-> o]))
      s2 == IF s1.hm[o] THEN s1
            ELSE Emit([s1 EXCEPT !.hm[o] = TRUE, !.meta[o] = [alive |-> TRUE, wc |-> 0, acc |-> TRUE]],
                      [e |-> "alloc", k |-> "meta", o |-> o, blk |-> MetaBlk(o), size |-> MSZ, align |-> 8])
      s3 == Unbuffer([s2 EXCEPT !.meta[o].wc = @ + 1, !.wroots[o] = @ + 1], o)
  IN Emit(s3, RetEv(s3, "downgrade", <<>>))

UpgradeCore(s1, t, op, extra) ==
  IF WeakStrong(s1, t) = 0 THEN Emit(s1, RetEv(s1, op, [res |-> "none"] @@ extra))
  ELSE LET s2 == Unbuffer([s1 EXCEPT !.rc[t] = @ + 1, !.roots[t] = @ + 1], t)
       IN Emit(s2, RetEv(s2, op, [res |-> "some", vok |-> TRUE] @@ extra))
EnvUpgrade(s, o) == UpgradeCore(Emit(s, CallEv(s, [op |-> "upgrade", o |-> o])), o, "upgrade", <<>>)
EnvUpgradeF(s, a, i) ==
  LET t == s.fw[a][i] IN UpgradeCore(Emit(s, CallEv(s, [op |-> "upgradef", a |-> a, k |-> "w", i |-> i])), t, "upgradef", [o |-> t])
EnvCloneW(s, o) ==
  LET s1 == Emit(s, CallEv(s, [op |-> "clonew", o |-> o]))
      s2 == [s1 EXCEPT !.meta[o].wc = @ + 1, !.wroots[o] = @ + 1]
  IN Emit(s2, RetEv(s2, "clonew", <<>>))
EnvDropW(s, o) ==
  LET s1 == Emit([s EXCEPT !.wroots[o] = @ - 1], CallEv(s, [op |-> "dropw", o |-> o]))
      s2 == DropWeakPtr(s1, o)
  IN Emit(s2, RetEv(s2, "dropw", <<>>))
EnvSetW(s, a, i, o) ==
  LET s1 == Emit(s, CallEv(s, [op |-> "setw", a |-> a, k |-> "w", i |-> i, o |-> o]))
      s2 == [s1 EXCEPT !.meta[o].wc = @ + 1, !.fw[a][i] = o]
  IN Emit(s2, RetEv(s2, "setw", <<>>))
EnvClearW(s, a, i) ==
  LET t == s.fw[a][i]
      s1 == Emit([s EXCEPT !.fw[a][i] = 0], CallEv(s, [op |-> "clearw", a |-> a, k |-> "w", i |-> i, o |-> t]))
      s2 == DropWeakPtr(s1, t)
  IN Emit(s2, RetEv(s2, "clearw", <<>>))

\* operations that can run callbacks: push frames, Run does the rest
EnvDrop(s, o) ==
  LET s1 == Emit([s EXCEPT !.roots[o] = @ - 1], CallEv(s, [op |-> "drop", o |-> o]))
  IN SPush(SPush(s1, [Frame("op", 0, "run") EXCEPT !.x = [op |-> "drop", o |-> o]]), Frame("ccdrop", o, "start"))

EnvClear(s, a, k, i) ==
  LET t == SlotsOf(s, a, k)[i]
      s1 == Emit(SetSlot(s, a, k, i, 0), CallEv(s, [op |-> "clear", a |-> a, k |-> k, i |-> i, o |-> t]))
  IN SPush(SPush(s1, [Frame("op", 0, "run") EXCEPT !.x = [op |-> "clear", o |-> t]]), Frame("ccdrop", t, "start"))

EnvDropVal(s, o) ==
  LET s1 == Emit([s EXCEPT !.moved[o] = FALSE], CallEv(s, [op |-> "dropval", o |-> o]))
  IN PushValueDrop(SPush(s1, [Frame("op", 0, "run") EXCEPT !.x = [op |-> "dropval", o |-> o]]), o)

EnvCollect(s, ft) ==
  LET s1 == Emit([s EXCEPT !.ft = IF s.stack = <<>> THEN ft ELSE @], CallEv(s, [op |-> "collect"]))
      s2 == SPush(s1, [Frame("op", 0, "run") EXCEPT !.x = [op |-> "collect", adj |-> ~s.col]])
  IN IF s.col \/ ~s.buf THEN s2 ELSE StartCollect(s2)

FaultPlans(s) == IF s.nfaults < MaxFaults /\ s.stack = <<>> THEN {<<k, j>> : k \in 0..MaxTraceK, j \in 0..NS} ELSE {}

\* ---- saturation (counter_marker.rs / weak_counter_marker.rs): bulk operations bring a count to the limit in one step
PanicMax(s, c) ==      \* a pointer-creating operation at the limit: documented panic, nothing changes
  LET s1 == Emit(s, CallEv(s, c)) IN Emit(s1, [RetEv(s1, c.op, <<>>) EXCEPT !.panic = "max"])
EnvCloneN(s, o, n) ==
  LET s1 == Emit(s, CallEv(s, [op |-> "clonen", o |-> o, n |-> n]))
      s2 == Unbuffer([s1 EXCEPT !.rc[o] = @ + n, !.roots[o] = @ + n], o)
  IN Emit(s2, RetEv(s2, "clonen", <<>>))
EnvDropN(s, o, n) ==   \* n handles dropped one after the other; never the last pointer
  LET s1 == Emit([s EXCEPT !.roots[o] = @ - n], CallEv(s, [op |-> "dropn", o |-> o, n |-> n]))
      s2 == Buffer([s1 EXCEPT !.rc[o] = @ - n], o)
  IN Emit(s2, RetEv(s2, "dropn", <<>>))
EnvCloneWN(s, o, n) ==
  LET s1 == Emit(s, CallEv(s, [op |-> "clonewn", o |-> o, n |-> n]))
      s2 == [s1 EXCEPT !.meta[o].wc = @ + n, !.wroots[o] = @ + n]
  IN Emit(s2, RetEv(s2, "clonewn", <<>>))
EnvDropWN(s, o, n) ==
  LET s1 == Emit([s EXCEPT !.wroots[o] = @ - n], CallEv(s, [op |-> "dropwn", o |-> o, n |-> n]))
      s2 == [s1 EXCEPT !.meta[o].wc = @ - n]
  IN Emit(s2, RetEv(s2, "dropwn", <<>>))

\* ---- cleaners
EnvRegister(s, a, t, ft) ==
  LET c == s.nact + 1
      trig == ~s.hasmap[a] /\ ShouldTrigger(s)
      s0 == IF t # 0 THEN [s EXCEPT !.roots[t] = @ - 1] ELSE s
      s1 == Emit([s0 EXCEPT !.nact = c, !.ft = IF s.stack = <<>> /\ trig THEN ft ELSE @],
                 CallEvPol(s, [op |-> "register", a |-> a, c |-> c, t |-> t]))
      s2 == SPush(s1, [Frame("op", 0, "pre") EXCEPT !.x = [op |-> "register", a |-> a, c |-> c, t |-> t, adj |-> trig, fresh |-> ~s.hasmap[a]]])
  IN IF trig THEN StartCollect(s2) ELSE s2

SlotOfAct(s, a, c) == LET S == {j \in DOMAIN s.slots[a] : s.slots[a][j].c = c} IN IF S = {} THEN 0 ELSE CHOOSE j \in S : TRUE
EnvClean(s, c) ==
  LET a == s.cls[c]  m == MapOf(a)
      s1 == Emit(s, CallEv(s, [op |-> "clean", c |-> c]))
      opf(ph) == [Frame("op", 0, ph) EXCEPT !.x = [op |-> "clean", c |-> c, a |-> a]]
  IN
  IF WeakStrong(s1, m) = 0 THEN Emit(s1, RetEv(s1, "clean", <<>>))      \* the map is gone: nothing to do
  ELSE
    LET s2 == Unbuffer([s1 EXCEPT !.rc[m] = @ + 1], m)                  \* upgraded temporary Cc
        j == SlotOfAct(s2, a, c)
    IN IF s2.borrowed[a] \/ j = 0
       THEN SPush(SPush(s2, opf("fin")), Frame("ccdrop", m, "start"))    \* nothing to run: only the temporary Cc goes away
       ELSE LET rec == s2.slots[a][j]
                s3 == [s2 EXCEPT !.slots[a][j] = Vacant, !.free[a] = Append(@, j)]
            IN IF BUG_CLEAN_REENTRANT
               THEN SPush(SPush([s3 EXCEPT !.borrowed[a] = TRUE], opf("unb")), RunAct(a, rec))
               \* release the borrow and the temporary Cc first, then run the action
               ELSE SPush(SPush(SPush(s3, opf("fin")), RunAct(a, rec)), Frame("ccdrop", m, "start"))
EnvDropCl(s, c) ==
  LET a == s.cls[c]
      s1 == Emit([s EXCEPT !.cls = [x \in DOMAIN @ \ {c} |-> @[x]]], CallEv(s, [op |-> "dropcl", c |-> c]))
      s2 == DropWeakPtr(s1, MapOf(a))
  IN Emit(s2, RetEv(s2, "dropcl", <<>>))

\* ---- macro operations: several atomic operations in one environment step (deep structures within a small step bound);
\* they emit exactly the events of their parts
Chain(s) == [s EXCEPT !.nops = @]     \* continue an environment step without resetting the emitted events
MLink(s, a, b) == EnvSet(EnvSet(s, a, "s", 1, b), b, "s", 1, a)                   \* a.s1 := b; b.s1 := a
MWeakTo(s, h, t) == EnvDropW(EnvSetW(EnvDowngrade(s, t), h, 1, t), t)            \* h.w1 := Weak(t), no Weak handle kept

\* callback decisions
CbId(f) == IF f.x = "action" THEN f.i ELSE f.o
EnvReturn(s) == LET f == STop(s) IN SPop(Emit(s, [e |-> "cbx", cb |-> f.x, o |-> CbId(f), panic |-> FALSE]))
\* the new_cyclic closure returns; sw: it stored a clone of the provided Weak into the new value
EnvReturnClosure(s, sw) ==
  LET f == STop(s)
      s1 == SPop(Emit(s, [e |-> "cbx", cb |-> "closure", o |-> f.o, panic |-> FALSE, sw |-> sw]))
  IN SetTop(s1, [STop(s1) EXCEPT !.i = IF sw THEN 1 ELSE 0])
EnvPanic(s) == LET f == STop(s) IN [SPop(Emit(s, [e |-> "cbx", cb |-> f.x, o |-> CbId(f), panic |-> TRUE])) EXCEPT !.pan = "inj", !.nfaults = @ + 1]

Do(s2) == /\ st' = Run(s2)
          /\ mon' = IF RECORD THEN MonSeq(mon, st'.ev, 1) ELSE mon
          /\ hist' = IF RECORD THEN hist \o st'.ev ELSE hist

ANew == /\ "new" \in OPS /\ Budget(st) /\ Full(st)
        /\ \E o \in Objs : /\ FreeId(st, o) /\ (\A o2 \in Objs : FreeId(st, o2) => o <= o2)
                            /\ \/ Do(EnvNew(Begin(st), o, <<>>))
                               \/ \E ft \in FaultPlans(st) : ShouldTrigger(st) /\ st.pc # <<>> /\ Do(EnvNew(Begin(st), o, ft))
ANewCyc == /\ "newcyc" \in OPS /\ WEAK /\ Budget(st) /\ Full(st)
           /\ \E o \in Objs : /\ FreeId(st, o) /\ (\A o2 \in Objs : FreeId(st, o2) => o <= o2)
                               /\ \/ Do(EnvNewCyc(Begin(st), o, <<>>))
                                  \/ \E ft \in FaultPlans(st) : ShouldTrigger(st) /\ st.pc # <<>> /\ Do(EnvNewCyc(Begin(st), o, ft))
AWNew == /\ "wnew" \in OPS /\ WEAK /\ Budget(st) /\ Full(st) /\ Do(EnvWNew(Begin(st)))
ASaveW == /\ "newcyc" \in OPS /\ Budget(st) /\ CbTop(st) = "closure" /\ st.wroots[SelfOf(st)] < MaxWRoots /\ Do(EnvSaveW(Begin(st), SelfOf(st)))
AWProbe == /\ "newcyc" \in OPS /\ Budget(st) /\ CbTop(st) = "closure" /\ Do(EnvWProbe(Begin(st), SelfOf(st)))
ASetCfg == /\ "setcfg" \in OPS /\ AUTOF /\ Budget(st) /\ Full(st)
           /\ \E c \in CfgChoices : [auto |-> st.cfg.auto, pn |-> st.cfg.pn, pd |-> st.cfg.pd, bt |-> st.cfg.bt] # c /\ Do(EnvSetCfg(Begin(st), c))
AClone == /\ "clone" \in OPS /\ Budget(st) /\ Full(st)
          /\ \E o \in Objs : st.roots[o] > 0 /\ st.roots[o] < MaxRoots /\ st.rc[o] < MAXRC /\ Do(EnvClone(Begin(st), o))
ACloneF == /\ "clonef" \in OPS /\ Budget(st) /\ Full(st)
           /\ \E a \in Acc(st), k \in Kinds : \E i \in DOMAIN SlotsOf(st, a, k) :
                LET t == SlotsOf(st, a, k)[i] IN t # 0 /\ st.roots[t] < MaxRoots /\ st.rc[t] < MAXRC /\ Do(EnvCloneF(Begin(st), a, k, i))
ADrop == /\ "drop" \in OPS /\ Budget(st) /\ Full(st)
         /\ \E o \in Objs : st.roots[o] > Borrowed(st, o) /\ Do(EnvDrop(Begin(st), o))
ASet == /\ "set" \in OPS /\ Budget(st) /\ Full(st)
        /\ \E a \in Acc(st), k \in Kinds, b \in Objs : \E i \in DOMAIN SlotsOf(st, a, k) :
             SlotsOf(st, a, k)[i] = 0 /\ st.roots[b] > 0 /\ st.rc[b] < MAXRC /\ Do(EnvSet(Begin(st), a, k, i, b))
APut == /\ "put" \in OPS /\ Budget(st) /\ Full(st)
        /\ \E a \in Acc(st), k \in Kinds, o \in Objs : \E i \in DOMAIN SlotsOf(st, a, k) :
             /\ SlotsOf(st, a, k)[i] = 0 /\ st.roots[o] > Borrowed(st, o)
             \* the program must still be able to name `a` after giving up one handle of `o`
             /\ (a # o \/ st.roots[o] >= 2 \/ a \in OpenSelves(st))
             /\ Do(EnvPut(Begin(st), a, k, i, o))
ATake == /\ "take" \in OPS /\ Budget(st) /\ Full(st)
         /\ \E a \in Acc(st), k \in Kinds : \E i \in DOMAIN SlotsOf(st, a, k) :
              SlotsOf(st, a, k)[i] # 0 /\ st.roots[SlotsOf(st, a, k)[i]] < MaxRoots /\ Do(EnvTake(Begin(st), a, k, i))
AClear == /\ "clear" \in OPS /\ Budget(st) /\ Full(st)
          /\ \E a \in Acc(st), k \in Kinds : \E i \in DOMAIN SlotsOf(st, a, k) :
               SlotsOf(st, a, k)[i] # 0 /\ Do(EnvClear(Begin(st), a, k, i))
AMark == /\ "mark" \in OPS /\ Budget(st) /\ Full(st)
         /\ \E o \in Objs : st.roots[o] > 0 /\ st.mark[o] = "P" /\ Do(EnvMark(Begin(st), o))
ACollect == /\ "collect" \in OPS /\ Budget(st)
            /\ \/ Do(EnvCollect(Begin(st), <<>>))
               \/ \E ft \in FaultPlans(st) : st.pc # <<>> /\ Do(EnvCollect(Begin(st), ft))
AUnwrap == /\ "unwrap" \in OPS /\ Budget(st)
           /\ \E o \in Objs : st.roots[o] > Borrowed(st, o) /\ Do(EnvUnwrap(Begin(st), o))
ADropVal == /\ "unwrap" \in OPS /\ Budget(st) /\ Full(st)
            /\ \E o \in Objs : st.moved[o] /\ o \notin OpenSelves(st) /\ Do(EnvDropVal(Begin(st), o))
AFAgain == /\ "fagain" \in OPS /\ FIN /\ Budget(st)
           /\ \E o \in Objs : st.roots[o] > 0 /\ Do(EnvFAgain(Begin(st), o))
ADowngrade == /\ "downgrade" \in OPS /\ WEAK /\ Budget(st) /\ Full(st)
              /\ \E o \in Objs : st.roots[o] > 0 /\ st.wroots[o] < MaxWRoots /\ Do(EnvDowngrade(Begin(st), o))
AUpgrade == /\ "upgrade" \in OPS /\ WEAK /\ Budget(st) /\ Full(st)
            /\ \E o \in Objs : st.wroots[o] > 0 /\ st.roots[o] < MaxRoots /\ Do(EnvUpgrade(Begin(st), o))
AUpgradeF == /\ "upgradef" \in OPS /\ WEAK /\ Budget(st)
             /\ \E a \in (IF Full(st) THEN Acc(st) ELSE {SelfOf(st)}) : \E i \in 1..NW :
                  st.fw[a][i] # 0 /\ st.roots[st.fw[a][i]] < MaxRoots /\ Do(EnvUpgradeF(Begin(st), a, i))
ACloneW == /\ "clonew" \in OPS /\ WEAK /\ Budget(st) /\ Full(st)
           /\ \E o \in Objs : st.wroots[o] > 0 /\ st.wroots[o] < MaxWRoots /\ Do(EnvCloneW(Begin(st), o))
ADropW == /\ "dropw" \in OPS /\ WEAK /\ Budget(st) /\ Full(st)
          /\ \E o \in Objs : st.wroots[o] > 0 /\ Do(EnvDropW(Begin(st), o))
ASetW == /\ "setw" \in OPS /\ WEAK /\ Budget(st) /\ Full(st)
         /\ \E a \in Acc(st), o \in Objs : \E i \in 1..NW : st.fw[a][i] = 0 /\ st.wroots[o] > 0 /\ Do(EnvSetW(Begin(st), a, i, o))
AClearW == /\ "clearw" \in OPS /\ WEAK /\ Budget(st) /\ Full(st)
           /\ \E a \in Acc(st) : \E i \in 1..NW : st.fw[a][i] # 0 /\ Do(EnvClearW(Begin(st), a, i))
Top0 == st.stack = <<>>
ASat == /\ "sat" \in OPS /\ Budget(st) /\ Top0
        /\ \/ \E o \in Objs, d \in {0, 1} : st.roots[o] > 0 /\ MAXRC - st.rc[o] - d > 0 /\ st.rc[o] < MAXRC - 10 /\ Do(EnvCloneN(Begin(st), o, MAXRC - st.rc[o] - d))
           \/ \E o \in Objs : st.roots[o] >= 3 /\ st.mark[o] \in {"N", "P"} /\ Do(EnvDropN(Begin(st), o, st.roots[o] - 1))
           \/ \E o \in Objs, d \in {0, 1} : WEAK /\ st.wroots[o] > 0 /\ st.meta[o].wc < MAXWC - 10 /\ Do(EnvCloneWN(Begin(st), o, MAXWC - st.meta[o].wc - d))
           \/ \E o \in Objs : WEAK /\ st.wroots[o] >= 3 /\ Do(EnvDropWN(Begin(st), o, st.wroots[o] - 1))
           \* pointer-creating operations at the limit panic
           \/ \E o \in Objs : st.roots[o] > 0 /\ st.rc[o] = MAXRC /\ Do(PanicMax(Begin(st), [op |-> "clone", o |-> o]))
           \/ \E o \in Objs : WEAK /\ st.wroots[o] > 0 /\ WeakStrong(st, o) = MAXRC /\ Do(PanicMax(Begin(st), [op |-> "upgrade", o |-> o]))
           \/ \E a \in Acc(st), k \in Kinds, b \in Objs : \E i \in DOMAIN SlotsOf(st, a, k) :
                SlotsOf(st, a, k)[i] = 0 /\ st.roots[b] > 0 /\ st.rc[b] = MAXRC /\ Do(PanicMax(Begin(st), [op |-> "set", a |-> a, k |-> k, i |-> i, b |-> b]))
           \/ \E o \in Objs : WEAK /\ st.roots[o] > 0 /\ st.hm[o] /\ st.meta[o].wc = MAXWC /\ Do(PanicMax(Begin(st), [op |-> "downgrade", o |-> o]))
           \/ \E o \in Objs : WEAK /\ st.wroots[o] > 0 /\ st.meta[o].wc = MAXWC /\ Do(PanicMax(Begin(st), [op |-> "clonew", o |-> o]))
           \* one more ordinary clone / upgrade just below the limit
           \/ \E o \in Objs : st.roots[o] >= MaxRoots /\ st.rc[o] = MAXRC - 1 /\ Do(EnvClone(Begin(st), o))
           \/ \E o \in Objs : WEAK /\ st.wroots[o] > 0 /\ st.roots[o] >= MaxRoots /\ WeakStrong(st, o) = MAXRC - 1 /\ Do(EnvUpgrade(Begin(st), o))
           \/ \E o \in Objs : WEAK /\ st.wroots[o] >= MaxWRoots /\ st.meta[o].wc = MAXWC - 1 /\ Do(EnvCloneW(Begin(st), o))
ARegister == /\ "register" \in OPS /\ CLEAN /\ Budget(st) /\ Full(st) /\ st.nact < MaxActs
             /\ \E a \in Acc(st), t \in {0} \cup Objs :
                  /\ st.box[a] = "live"
                  /\ (t # 0 => st.roots[t] > Borrowed(st, t) /\ (t # a \/ st.roots[a] >= 2 \/ a \in OpenSelves(st)) /\ (st.hasmap[a] \/ ~ShouldTrigger(st)))
                  /\ \/ Do(EnvRegister(Begin(st), a, t, <<>>))
                     \/ \E ft \in FaultPlans(st) : ~st.hasmap[a] /\ ShouldTrigger(st) /\ st.pc # <<>> /\ Do(EnvRegister(Begin(st), a, t, ft))
AClean == /\ "clean" \in OPS /\ CLEAN /\ Budget(st) /\ Full(st)
          /\ \E c \in DOMAIN st.cls : Do(EnvClean(Begin(st), c))
ADropCl == /\ "dropcl" \in OPS /\ CLEAN /\ Budget(st) /\ Full(st)
           \* a Cleanable cannot be dropped while its own clean() is running (it is borrowed)
           /\ \E c \in DOMAIN st.cls : (\A i \in DOMAIN st.stack : ~(st.stack[i].k = "op" /\ st.stack[i].x.op = "clean" /\ st.stack[i].x.c = c))
                                         /\ Do(EnvDropCl(Begin(st), c))
AMacro == /\ "macro" \in OPS /\ Budget(st) /\ Top0
          /\ \/ \E a \in Objs, b \in Objs : a # b /\ st.roots[a] > 0 /\ st.roots[b] > 0 /\ st.fs[a][1] = 0 /\ st.fs[b][1] = 0
                                            /\ Do(MLink(Begin(st), a, b))
             \/ \E h \in Objs, t \in Objs : WEAK /\ NW > 0 /\ st.roots[h] > 0 /\ st.roots[t] > 0 /\ st.fw[h][1] = 0 /\ st.wroots[t] = 0
                                            /\ Do(MWeakTo(Begin(st), h, t))
AReturn == /\ st.stack # <<>> /\ CbTop(st) # "closure" /\ Do(EnvReturn([st EXCEPT !.ev = <<>>]))
AReturnClosure == /\ st.stack # <<>> /\ CbTop(st) = "closure"
                  /\ \E sw \in (IF NW > 0 THEN BOOLEAN ELSE {FALSE}) : Do(EnvReturnClosure([st EXCEPT !.ev = <<>>], sw))
APanic == /\ st.stack # <<>> /\ st.nfaults < MaxFaults /\ ~Unwinding(st) /\ Do(EnvPanic([st EXCEPT !.ev = <<>>]))

Next == AMacro \/ AWNew \/ ARegister \/ AClean \/ ADropCl \/ ASat \/ ANewCyc \/ ASaveW \/ AWProbe \/ ASetCfg \/ AReturnClosure \/ APut \/ ATake \/ ADowngrade \/ AUpgrade \/ AUpgradeF \/ ACloneW \/ ADropW \/ ASetW \/ AClearW \/ ANew \/ AClone \/ ACloneF \/ ADrop \/ ASet \/ AClear \/ AMark \/ ACollect \/ AUnwrap \/ ADropVal \/ AFAgain \/ AReturn \/ APanic

Init == /\ st = Init0
        /\ mon = Mon(MonInit, ResetEv)
        /\ hist = <<ResetEv>>
Spec == Init /\ [][Next]_vars

\* ------------------------------------------------------------------ what TLC checks
NoViolation == DOMAIN mon.viol = {}
View == <<[st EXCEPT !.ev = <<>>], mon>>

PassBound == \A i \in DOMAIN st.stack : st.stack[i].k = "collect" => st.stack[i].x.passes <= (IF FIN THEN 10 ELSE 1)
\* structural invariants of the model itself (evaluated at environment decision points)
Quiescent == st.stack = <<>>
StructInv ==
  /\ st.pcSize = Len(st.pc)
  /\ \A o \in Objs : (st.mark[o] = "P") = (o \in Rng(st.pc))
  /\ Cardinality(Rng(st.pc)) = Len(st.pc)
  /\ Quiescent => (~st.col /\ ~st.fing /\ ~st.drp /\ st.rl = <<>> /\ st.nrl = <<>> /\ st.q = <<>> /\ st.pan = "")
  /\ Quiescent => \A o \in Objs : st.mark[o] \in {"N", "P"}
  /\ PassBound
  /\ Quiescent => \A o \in Objs : st.box[o] = "live" => st.tc[o] <= st.rc[o] \/ st.nfaults > 0

\* ------------------------------------------------------------------ termination (C06)
\* Liveness configuration (no VIEW, no history): whenever the environment is asked for a decision inside a running
\* collection, the collection eventually ends, provided callbacks eventually return (weak fairness of Next; the operation
\* budget bounds what finalizers can keep doing, the pass loop bounds what the collector does with it).
LiveSpec == Init /\ [][Next]_vars /\ WF_vars(Next)
CollectionEnds == [](st.col => <>(~st.col))

\* one behaviour per transition that returns control to the top level (edge cover of the explored graph)
EmitBehaviour == IF st'.stack = <<>> THEN PrintT(<<"RP", ToJson(hist')>>) ELSE TRUE
=============================================================================
