------------------------------- MODULE Threads -------------------------------
(***************************************************************************)
(* C19: every thread has its own collector.  K threads run small programs  *)
(* (indices into a catalogue that the harness implements with real API     *)
(* calls); TLC enumerates every interleaving of their steps, both          *)
(* destruction orders of the user's thread-local (which holds the Ccs)     *)
(* versus the collector's own thread-locals, and both ways of exiting      *)
(* (handles dropped by the thread-local destructor / leaked / a            *)
(* collection requested from that destructor first).                       *)
(*                                                                         *)
(* The abstract state of a thread is the vector of its public counters     *)
(* (objects allocated, buffered, collections executed, auto-collect flag). *)
(* Independence is the invariant that this vector is a function of the     *)
(* thread's own executed prefix, whatever the other threads did.  Each     *)
(* complete schedule is printed and replayed by the harness with real      *)
(* threads handing a baton to each other; every thread's trace must then   *)
(* satisfy the single-thread contract with exact counters.                 *)
(***************************************************************************)
EXTENDS Naturals, Sequences, TLC, Json

CONSTANTS K, Progs   \* number of threads, set of program indices
\* how a thread ends: the user's thread-local destructor drops the handles ("drop"), leaks them ("leak"), or first
\* calls collect_cycles() - which finds the collector's own thread-locals alive or already destroyed - and then drops them ("collect")
ExitModes == {"drop", "leak", "collect"}

\* Effect of step i of program p on [alloc, buf, exec, auto]; mirrors the harness catalogue (harness/src/threads.rs)
\* p1: new a; clone a; drop a            -> a alive, buffered
\* p2: new a; a.s1 := a; drop a; collect  -> cycle collected
\* p3: new a; new b; a.s1 := b; b.s1 := a; drop a; drop b   -> garbage cycle left buffered
\* p4: setcfg(auto on); new; new; new     -> automatic collections
\* p5: new a; a.s1 := a                  -> the thread exits holding a handle to a member of a cycle (strong count 2)
Len_(p) == CASE p = 1 -> 3 [] p = 2 -> 4 [] p = 3 -> 6 [] p = 4 -> 4 [] p = 5 -> 2
Step(p, i, s) ==
  CASE p = 1 -> (CASE i = 1 -> [s EXCEPT !.alloc = @ + 1] [] i = 2 -> s [] i = 3 -> [s EXCEPT !.buf = @ + 1])
    [] p = 2 -> (CASE i = 1 -> [s EXCEPT !.alloc = @ + 1] [] i = 2 -> s [] i = 3 -> [s EXCEPT !.buf = @ + 1]
                   [] i = 4 -> [s EXCEPT !.alloc = @ - 1, !.buf = 0, !.exec = @ + 1])
    [] p = 3 -> (CASE i \in {1, 2} -> [s EXCEPT !.alloc = @ + 1] [] i \in {3, 4} -> s [] i \in {5, 6} -> [s EXCEPT !.buf = @ + 1])
    [] p = 5 -> (CASE i = 1 -> [s EXCEPT !.alloc = @ + 1] [] i = 2 -> s)
    [] p = 4 -> (CASE i = 1 -> [s EXCEPT !.auto = TRUE] [] i = 2 -> [s EXCEPT !.alloc = @ + 1]
                   [] i \in {3, 4} -> [s EXCEPT !.alloc = @ + 1, !.exec = @ + 1])
Zero == [alloc |-> 0, buf |-> 0, exec |-> 0, auto |-> FALSE]
RECURSIVE Prefix(_, _)
Prefix(p, n) == IF n = 0 THEN Zero ELSE Step(p, n, Prefix(p, n - 1))

VARIABLES prog, pos, loc, order, exit, sched
vars == <<prog, pos, loc, order, exit, sched>>
T == 1..K

Init == /\ prog \in [T -> Progs]
        /\ order \in [T -> {"user_first", "buffer_first"}]
        /\ exit \in [T -> ExitModes]
        /\ pos = [t \in T |-> 0]
        /\ loc = [t \in T |-> Zero]
        /\ sched = <<>>
Run(t) == /\ pos[t] < Len_(prog[t])
          /\ pos' = [pos EXCEPT ![t] = @ + 1]
          /\ loc' = [loc EXCEPT ![t] = Step(prog[t], pos[t] + 1, @)]
          /\ sched' = Append(sched, t)
          /\ UNCHANGED <<prog, order, exit>>
Next == \E t \in T : Run(t)
Spec == Init /\ [][Next]_vars

\* the counters of a thread depend on its own prefix only
Independent == \A t \in T : loc[t] = Prefix(prog[t], pos[t])
Done == \A t \in T : pos[t] = Len_(prog[t])
Emit == IF \A t \in T : pos'[t] = Len_(prog[t])
        THEN PrintT(<<"TS", ToJson([progs |-> prog, order |-> order, exit |-> exit, sched |-> sched', expect |-> loc'])>>) ELSE TRUE
=============================================================================
