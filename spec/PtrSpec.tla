------------------------------- MODULE PtrSpec -------------------------------
(***************************************************************************)
(* C20 (table part): what Eq / PartialOrd / Ord on Cc<T> must answer, as   *)
(* a function of the order on T.  Two abstract domains of five values:     *)
(*   "tot": 1 < 2 < 3 < 4 < 5 (i32, String)                                *)
(*   "par": 1 < 2 < 3 < 4 and an element 5 that is incomparable with       *)
(*          everything, itself included (f64 with NaN)                     *)
(* TLC enumerates all pairs and prints the expected result of every        *)
(* method; the harness evaluates the same on Cc<T> and on plain T.         *)
(***************************************************************************)
EXTENDS Naturals, Sequences, TLC, Json

D == 1..5
Comparable(dom, a, b) == dom = "tot" \/ (a # 5 /\ b # 5)
PCmp(dom, a, b) == IF ~Comparable(dom, a, b) THEN "none" ELSE IF a < b THEN "lt" ELSE IF a = b THEN "eq" ELSE "gt"
Expected(dom, a, b) ==
  LET c == PCmp(dom, a, b) IN
  [eq |-> c = "eq", ne |-> c # "eq", lt |-> c = "lt", le |-> c \in {"lt", "eq"}, gt |-> c = "gt", ge |-> c \in {"gt", "eq"}, pcmp |-> c]

\* laws the table itself must satisfy (checked by TLC before it is used as an oracle)
Laws ==
  \A dom \in {"tot", "par"}, a \in D, b \in D :
    LET e == Expected(dom, a, b)  r == Expected(dom, b, a) IN
    /\ e.ne = ~e.eq
    /\ e.le = (e.lt \/ e.eq) /\ e.ge = (e.gt \/ e.eq)
    /\ e.lt = r.gt /\ e.eq = r.eq
    /\ (dom = "tot" => e.eq \/ e.lt \/ e.gt)
    /\ (dom = "tot" /\ a = b => e.eq)

Rows == [i \in 1..50 |->
           LET dom == IF i <= 25 THEN "tot" ELSE "par"
               k == (i - 1) % 25
               a == (k \div 5) + 1
               b == (k % 5) + 1
           IN <<dom, a, b, Expected(dom, a, b)>>]

VARIABLE done
Init == done = FALSE
Next == ~done /\ done' = TRUE /\ PrintT(<<"PT", ToJson(Rows)>>)
Spec == Init /\ [][Next]_done
LawsHold == Laws
=============================================================================
