----------------------------- MODULE PolicyDefs -----------------------------
(* Transcription of Config::adjust (src/config.rs): the byte threshold after a collection.          *)
(* The adjustment percent is the exact rational pn / pd.                                            *)
EXTENDS Naturals

RECURSIVE ThrUp(_, _)
ThrUp(thr, bytes) == LET t == 2 * thr IN IF bytes < t THEN t ELSE ThrUp(t, bytes)
RECURSIVE ThrDown(_, _, _, _)
ThrDown(thr, bytes, pn, pd) ==
  IF bytes * pd <= thr * pn THEN
    LET nt == thr \div 2 IN
    IF bytes >= nt THEN thr ELSE IF nt <= 100 THEN 100 ELSE ThrDown(nt, bytes, pn, pd)
  ELSE thr
AdjustThr(thr, bytes, pn, pd) == IF bytes >= thr THEN ThrUp(thr, bytes) ELSE IF pn = 0 THEN thr ELSE ThrDown(thr, bytes, pn, pd)
=============================================================================
