SPECIFICATION Spec
INVARIANT LawsHold
CHECK_DEADLOCK FALSE
