SPECIFICATION Spec
CONSTANTS
  K = 2
  Progs = {1, 2, 3, 4, 5}
INVARIANT Independent
ACTION_CONSTRAINT Emit
CHECK_DEADLOCK FALSE
