------------------------------- MODULE Policy -------------------------------
(***************************************************************************)
(* C15, function part: for every threshold the policy can hold            *)
(* (100 * 2^k), every number of allocated bytes in range and every         *)
(* adjustment percent of the grid, the threshold produced by               *)
(* Config::adjust satisfies the facts the property states (ThresholdOk,    *)
(* the same predicate the trace monitor applies after every collection),   *)
(* and adjusting twice changes nothing more (idempotence).  TLC evaluates  *)
(* the whole grid in the initial-state check.                              *)
(***************************************************************************)
EXTENDS Contract, PolicyDefs, Json, IOUtils

CONSTANTS MaxK, MaxBytes, Step
Thresholds == {100 * (2 ^ k) : k \in 0..MaxK}
BytesGrid == {b \in 0..MaxBytes : b % Step = 0 \/ \E t \in Thresholds : b \in {t - 1, t, t + 1, (t \div 2) - 1, t \div 2, (t \div 2) + 1, t \div 10, (t \div 10) + 1}}
Percents == {<<0, 1>>, <<1, 16>>, <<1, 10>>, <<1, 4>>, <<1, 2>>, <<3, 4>>, <<1, 1>>}

AllGood == \A thr \in Thresholds, b \in BytesGrid, p \in Percents :
             LET t2 == AdjustThr(thr, b, p[1], p[2]) IN
             /\ ThresholdOk(t2, b, p[1], p[2])
             /\ AdjustThr(t2, b, p[1], p[2]) = t2

\* rows replayed against the real Config::adjust / should_collect by the harness (multiples of 8: what boxes can add up to)
RowThr == {100 * (2 ^ k) : k \in 0..5}
Edge(t) == {b \in {0, 48, 96, (t \div 10) - 4, t \div 10, (t \div 10) + 4, (t \div 4), (t \div 2) - 8, (t \div 2) - 4, t \div 2, (t \div 2) + 4, t - 8, t - 4, t, t + 4, t + 8,
                    (2 * t) - 8, 2 * t, (2 * t) + 8, (4 * t) + 16} : b % 8 = 0 /\ (b = 0 \/ b >= 48)}
AdjustRows == {<<t, b, p[1], p[2], AdjustThr(t, b, p[1], p[2])>> : t \in RowThr, b \in UNION {Edge(x) : x \in RowThr}, p \in Percents}
RECURSIVE S2Q(_)
S2Q(S) == IF S = {} THEN <<>> ELSE LET x == CHOOSE y \in S : TRUE IN <<x>> \o S2Q(S \ {x})
GridSize == Cardinality(Thresholds) * Cardinality(BytesGrid) * Cardinality(Percents)
VARIABLE done
Init == done = FALSE /\ PrintT(<<"GRID", GridSize>>) /\ (IF "POLICY_ROWS" \in DOMAIN IOEnv THEN JsonSerialize(IOEnv.POLICY_ROWS, [rows |-> AdjustRows]) ELSE TRUE)
Next == ~done /\ done' = TRUE
Spec == Init /\ [][Next]_done
PolicyHolds == AllGood
=============================================================================
