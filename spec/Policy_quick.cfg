SPECIFICATION Spec
CONSTANTS
  MaxK = 10
  MaxBytes = 120000
  Step = 97
INVARIANT PolicyHolds
CHECK_DEADLOCK FALSE
