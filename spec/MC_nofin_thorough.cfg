\* generated by lib/gen_cfgs.py from lib/props.py - do not edit
SPECIFICATION Spec
CONSTANTS
  N = 3
  NS = 2
  NP = 0
  NW = 0
  FIN = FALSE
  WEAK = TRUE
  DBG = TRUE
  MAXRC = 16382
  MAXWC = 32767
  MaxRoots = 2
  MaxWRoots = 0
  MaxOps = 7
  MaxFaults = 0
  MaxTraceK = 0
  BUG_STALE_TC = FALSE
  BUG_NESTED_FLAGS = FALSE
  OPS = {"clear", "clone", "clonef", "collect", "drop", "mark", "new", "put", "set", "take", "unwrap"}
  AUTOF = TRUE
  AUTO0 = FALSE
  SZ = 160
  CLEAN = FALSE
  MaxActs = 0
  BUG_CLEAN_REENTRANT = FALSE
  BUG_NESTED_DROP_FLAG = FALSE
  RECORD = TRUE
INVARIANT NoViolation
INVARIANT StructInv
VIEW View
CHECK_DEADLOCK FALSE
ACTION_CONSTRAINT EmitBehaviour
