\* generated by lib/gen_cfgs.py from lib/props.py - do not edit
SPECIFICATION Spec
CONSTANTS
  N = 3
  NS = 1
  NP = 1
  NW = 1
  FIN = FALSE
  WEAK = TRUE
  DBG = FALSE
  MAXRC = 16382
  MAXWC = 32767
  MaxRoots = 2
  MaxWRoots = 2
  MaxOps = 20
  MaxFaults = 1
  MaxTraceK = 2
  BUG_STALE_TC = FALSE
  BUG_NESTED_FLAGS = FALSE
  OPS = {"clean", "clear", "clearw", "clone", "clonef", "clonew", "collect", "downgrade", "drop", "dropcl", "dropw", "mark", "new", "newcyc", "put", "register", "set", "setcfg", "setw", "take", "unwrap", "upgrade", "upgradef", "wnew"}
  AUTOF = TRUE
  AUTO0 = TRUE
  SZ = 160
  CLEAN = TRUE
  MaxActs = 2
  BUG_CLEAN_REENTRANT = FALSE
  BUG_NESTED_DROP_FLAG = FALSE
  RECORD = TRUE
INVARIANT NoViolation
INVARIANT StructInv
VIEW View
CHECK_DEADLOCK FALSE
ACTION_CONSTRAINT EmitBehaviour
