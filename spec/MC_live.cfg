\* liveness of collections (C06): small scope, no VIEW, no history
SPECIFICATION LiveSpec
CONSTANTS
  N = 2
  NS = 1
  NP = 0
  NW = 0
  FIN = TRUE
  WEAK = TRUE
  DBG = TRUE
  MAXRC = 16382
  MAXWC = 32767
  MaxRoots = 2
  MaxWRoots = 0
  MaxOps = 6
  MaxFaults = 0
  MaxTraceK = 0
  BUG_STALE_TC = FALSE
  BUG_NESTED_FLAGS = FALSE
  OPS = {"new", "drop", "set", "clonef", "collect", "clear"}
  AUTOF = TRUE
  AUTO0 = FALSE
  SZ = 160
  CLEAN = FALSE
  MaxActs = 0
  RECORD = FALSE
  BUG_NESTED_DROP_FLAG = FALSE
  BUG_CLEAN_REENTRANT = FALSE
INVARIANT StructInv
PROPERTY CollectionEnds
CHECK_DEADLOCK FALSE
