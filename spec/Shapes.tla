------------------------------- MODULE Shapes -------------------------------
(***************************************************************************)
(* C17 / C18: what one Trace::trace (and one Finalize::finalize) call on a *)
(* value must visit, as a function of the shape of the value.              *)
(*                                                                         *)
(* A shape is a term over the containers rust-cc implements Trace for.     *)
(* Leaf = a probe that owns one Cc.  Visits(s) lists, for every leaf of    *)
(* the value in left-to-right order, whether a trace call on the value     *)
(* must report it (exactly once) and whether a finalize call must be       *)
(* forwarded to it (exactly once).  TLC enumerates the shapes with their   *)
(* expected visit vectors; a generator turns each into a Rust type with    *)
(* probe leaves and the harness compares the real per-leaf counts, and     *)
(* routes a reference cycle through every leaf position (reclaimed iff the *)
(* position is traced, never reclaimed while externally held).             *)
(*                                                                         *)
(* Type definitions for the derive macros (C18): a definition is a struct  *)
(* (unit / tuple / named) or an enum; every field carries an ignore flag,  *)
(* every variant too; DeriveVisits = the non-ignored fields of the active, *)
(* non-ignored variant.                                                    *)
(***************************************************************************)
EXTENDS Naturals, Sequences, TLC, Json

\* ------------------------------------------------------------------ shape terms
Leaf == [k |-> "leaf", n |-> 0, c |-> <<>>]
Mk(k, n, c) == [k |-> k, n |-> n, c |-> c]
Rep(n, s) == [i \in 1..n |-> s]
Tup(ss) == Mk("tup", Len(ss), ss)
Arr(n, s) == Mk("arr", n, Rep(n, s))
Vec_(n, s) == Mk("vec", n, Rep(n, s))
Slice(n, s) == Mk("slice", n, Rep(n, s))
One(k, s) == Mk(k, 1, <<s>>)
NoneOf(s) == Mk("none", 0, <<s>>)     \* Option<S> holding None: the type mentions S, the value has no leaf

\* a borrowed RefCell hides its content from trace ("cellb" = mutably borrowed, "cells" = a shared borrow is outstanding);
\* finalize is forwarded unless the borrow is a mutable one
OpaqueT(k) == k \in {"cellb", "cells"}
OpaqueF(k) == k \in {"cellb"}
Empty(k) == k \in {"none", "weak", "cleaner", "cleanable", "phantom", "prim"}

RECURSIVE Visits(_, _, _)
\* sequence of [t |-> traced, f |-> finalized], one entry per leaf of the value
Visits(s, vt, vf) ==
  IF s.k = "leaf" THEN <<[t |-> vt, f |-> vf]>>
  ELSE IF Empty(s.k) THEN <<>>
  ELSE LET t == vt /\ ~OpaqueT(s.k)
           f == vf /\ ~OpaqueF(s.k)
           RECURSIVE Cat(_)
           Cat(i) == IF i > Len(s.c) THEN <<>> ELSE Visits(s.c[i], t, f) \o Cat(i + 1)
       IN Cat(1)

\* ------------------------------------------------------------------ enumeration
Wrappers == {"box", "md", "aus", "some", "ok", "err", "cell", "cellb", "cells"}
Depth1 ==
  {Tup(Rep(n, Leaf)) : n \in 1..12}
  \cup {Arr(n, Leaf) : n \in {0, 1, 2, 3, 32}}
  \cup {Vec_(n, Leaf) : n \in {0, 1, 2}}
  \cup {Slice(n, Leaf) : n \in {0, 2}}
  \cup {One(k, Leaf) : k \in Wrappers}
  \cup {NoneOf(Leaf)}
Inner == {Tup(Rep(2, Leaf)), Arr(2, Leaf), Vec_(1, Leaf), One("box", Leaf), One("some", Leaf), NoneOf(Leaf), One("ok", Leaf), One("err", Leaf),
          One("cell", Leaf), One("cellb", Leaf), One("cells", Leaf), One("md", Leaf), One("aus", Leaf)}
Depth2 ==
  {Tup(<<i, Leaf>>) : i \in Inner} \cup {Tup(<<Leaf, i, Leaf>>) : i \in Inner}
  \cup {Arr(2, i) : i \in Inner} \cup {Vec_(2, i) : i \in Inner} \cup {Slice(1, i) : i \in Inner}
  \cup {One(k, i) : k \in Wrappers, i \in Inner}
\* containers that report nothing, next to a leaf that must still be reported
Silent == {Tup(<<Mk(k, 0, <<>>), Leaf>>) : k \in {"weak", "cleaner", "cleanable", "phantom", "prim"}}
AllShapes == Depth1 \cup Depth2 \cup Silent

ShapeRows == {[shape |-> s, visits |-> Visits(s, TRUE, TRUE)] : s \in AllShapes}

\* ------------------------------------------------------------------ derive definitions (C18)
\* a field list = sequence of ignore flags; kinds of field lists: unit, tuple, named
Masks(n) == [1..n -> BOOLEAN]
Kinds == {"unit", "tuple", "named"}
FieldLists == {[kind |-> "unit", ign |-> <<>>]}
              \cup {[kind |-> k, ign |-> m] : k \in {"tuple", "named"}, m \in UNION {Masks(n) : n \in 0..4}}
              \cup UNION {{[kind |-> k, ign |-> [i \in 1..n |-> i = j]] : k \in {"tuple", "named"}, j \in {0, 1, n}} : n \in 5..8}
StructDefs == {[def |-> "struct", generic |-> g, variants |-> <<[ignv |-> FALSE, fl |-> fl]>>, active |-> 1] : fl \in FieldLists, g \in {FALSE}}
              \cup {[def |-> "struct", generic |-> TRUE, variants |-> <<[ignv |-> FALSE, fl |-> [kind |-> "named", ign |-> <<FALSE, TRUE>>]]>>, active |-> 1]}
SmallFL == {[kind |-> "unit", ign |-> <<>>], [kind |-> "tuple", ign |-> <<FALSE>>], [kind |-> "tuple", ign |-> <<TRUE, FALSE>>], [kind |-> "named", ign |-> <<FALSE, TRUE>>]}
Variants == {[ignv |-> iv, fl |-> fl] : iv \in BOOLEAN, fl \in SmallFL}
EnumDefs == {[def |-> "enum", generic |-> FALSE, variants |-> vs, active |-> a] :
               vs \in UNION {[1..n -> Variants] : n \in 1..2}, a \in 1..2}
            \cup {[def |-> "enum", generic |-> FALSE, variants |-> <<v1, [ignv |-> TRUE, fl |-> [kind |-> "tuple", ign |-> <<FALSE>>]], v3, [ignv |-> FALSE, fl |-> [kind |-> "unit", ign |-> <<>>]]>>, active |-> a] :
                  v1 \in Variants, v3 \in {[ignv |-> FALSE, fl |-> [kind |-> "named", ign |-> <<FALSE, TRUE>>]]}, a \in 1..4}
ValidDef(d) == d.active <= Len(d.variants)
DeriveVisits(d) == LET v == d.variants[d.active] IN [i \in 1..Len(v.fl.ign) |-> ~v.ignv /\ ~v.fl.ign[i]]
DefRows == {[d |-> d, visits |-> DeriveVisits(d)] : d \in {x \in StructDefs \cup EnumDefs : ValidDef(x)}}

\* sanity of the oracle itself
Laws == /\ \A r \in ShapeRows : \A i \in DOMAIN r.visits : r.visits[i].t => r.visits[i].f   \* whatever is traced is also finalized
        /\ \A r \in DefRows : Len(r.visits) = Len(r.d.variants[r.d.active].fl.ign)

RECURSIVE SetToSeq(_)
SetToSeq(S) == IF S = {} THEN <<>> ELSE LET x == CHOOSE y \in S : TRUE IN <<x>> \o SetToSeq(S \ {x})

VARIABLE done
Init == done = FALSE
Next == ~done /\ done' = TRUE /\ PrintT(<<"SH", ToJson(SetToSeq(ShapeRows))>>) /\ PrintT(<<"DF", ToJson(SetToSeq(DefRows))>>)
Spec == Init /\ [][Next]_done
LawsHold == Laws
=============================================================================
