\* generated by lib/gen_cfgs.py from lib/props.py - do not edit
SPECIFICATION Spec
CONSTANTS
  N = 2
  NS = 1
  NP = 0
  NW = 1
  FIN = TRUE
  WEAK = TRUE
  DBG = TRUE
  MAXRC = 16382
  MAXWC = 32767
  MaxRoots = 2
  MaxWRoots = 2
  MaxOps = 6
  MaxFaults = 0
  MaxTraceK = 0
  BUG_STALE_TC = FALSE
  BUG_NESTED_FLAGS = FALSE
  OPS = {"clone", "collect", "downgrade", "drop", "dropw", "new", "put", "sat", "unwrap", "upgrade"}
  AUTOF = TRUE
  AUTO0 = FALSE
  SZ = 160
  CLEAN = FALSE
  MaxActs = 0
  BUG_CLEAN_REENTRANT = FALSE
  BUG_NESTED_DROP_FLAG = FALSE
  RECORD = TRUE
INVARIANT NoViolation
INVARIANT StructInv
VIEW View
CHECK_DEADLOCK FALSE
ACTION_CONSTRAINT EmitBehaviour
