------------------------------ MODULE SatGraph ------------------------------
(***************************************************************************)
(* C16 (table part): the strong counter at its limit when all the Ccs to   *)
(* an object are owned by traced objects (so that a collection counts them *)
(* all: the tracing counter reaches the same value as the reference        *)
(* counter).  The engine `sat` of CcImpl reaches the limit through         *)
(* program-held handles only; this table covers the traced side.           *)
(*                                                                         *)
(* n Ccs to one object live in a traced container; optionally a collection *)
(* runs over the (live) container; then one query is made through a Weak   *)
(* or through a Cc.  TLC prints what the query must answer.                *)
(***************************************************************************)
EXTENDS Naturals, Sequences, FiniteSets, TLC, Json

MAXRC == 16382
Counts == {MAXRC - 1, MAXRC}
Queries == {"wsc", "upgrade", "clone"}

Row(n, coll, q) ==
  [n |-> n, coll |-> coll, q |-> q,
   wsc |-> n,                                                     \* Weak::strong_count() before the query: exact, never 0
   res |-> IF q = "wsc" THEN "value" ELSE IF n = MAXRC THEN "panic-max" ELSE "ok",
   after |-> IF q = "wsc" \/ n = MAXRC THEN n ELSE n + 1]         \* strong_count() after the query

RowSet == {Row(n, c, q) : n \in Counts, c \in BOOLEAN, q \in Queries}

\* the documented behaviour: a count never exceeds the limit, a refused operation changes nothing, a collection changes nothing
Laws == /\ \A r \in RowSet : r.after <= MAXRC /\ r.wsc = r.n
        /\ \A r \in RowSet : (r.res = "panic-max") => (r.after = r.n /\ r.n = MAXRC)
        /\ \A r1, r2 \in RowSet : (r1.n = r2.n /\ r1.q = r2.q) => (r1.res = r2.res /\ r1.after = r2.after)

RECURSIVE SetToSeq(_)
SetToSeq(S) == IF S = {} THEN <<>> ELSE LET x == CHOOSE y \in S : TRUE IN <<x>> \o SetToSeq(S \ {x})

VARIABLE done
Init == done = FALSE
Next == ~done /\ done' = TRUE /\ PrintT(<<"SG", ToJson(SetToSeq(RowSet))>>)
Spec == Init /\ [][Next]_done
LawsHold == Laws
=============================================================================
