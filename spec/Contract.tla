------------------------------ MODULE Contract ------------------------------
(***************************************************************************)
(* Property oracle for rust-cc: a monitor over PUBLIC events only.         *)
(* Mon(m, e) is total; it never disables a step.  It keeps a ghost heap    *)
(* (objects, edges, program-held handles) and records in m.viol the first  *)
(* event that contradicts each property C01..C20.                          *)
(* The same operator is folded over the events emitted by CcImpl (TLC,     *)
(* exhaustive) and over traces recorded from the real crate.               *)
(***************************************************************************)
EXTENDS Naturals, Integers, Sequences, FiniteSets, TLC

Get(r, f, d) == IF f \in DOMAIN r THEN r[f] ELSE d
Rng(s) == {s[i] : i \in DOMAIN s}
Max2(a, b) == IF a > b THEN a ELSE b

NoObj == [vs |-> "none", bs |-> "none", roots |-> 0, wroots |-> 0, s |-> <<>>, p |-> <<>>, w |-> <<>>,
          armed |-> "yes", blk |-> 0, size |-> 0, align |-> 0, off |-> -1, mblk |-> 0, mlive |-> FALSE,
          slack |-> 0, infl |-> 0, winfl |-> 0, tainted |-> FALSE, cyc |-> FALSE, caps |-> {}, ismap |-> FALSE]

MonInit == [cfg |-> [fin |-> TRUE, weak |-> TRUE, dbg |-> TRUE, auto |-> FALSE, clean |-> FALSE, ns |-> 2, np |-> 0, nw |-> 0, run |-> 0],
            objs |-> <<>>, stack |-> <<>>, seen |-> {}, viol |-> <<>>, log |-> <<>>, n |-> 0,
            bytes |-> 0, blocks |-> <<>>, faulted |-> FALSE, resur |-> FALSE, x |-> 0, lastbf |-> 0, wn |-> 0, punw |-> "",
            acfg |-> [auto |-> FALSE, pn |-> 1, pd |-> 10, bt |-> 0], big |-> FALSE,
            acts |-> <<>>, cgone |-> {}, wup |-> FALSE]

Ids(m) == DOMAIN m.objs
Obj(m, o) == m.objs[o]
Known(m, o) == o \in Ids(m)

\* ------------------------------------------------------------------ ghost heap
\* Ccs captured by the cleaning actions of an object's Cleaner are untraced pointers owned by it
CapTargets(ob) == {pr[2] : pr \in ob.caps}
Ptrs(ob) == ((Rng(ob.s) \cup Rng(ob.p)) \ {0}) \cup CapTargets(ob)
Holds(m, x) == x \in Ids(m) /\ m.objs[x].vs \in {"live", "moved"}
RootSet(m) == {o \in Ids(m) : m.objs[o].roots > 0 \/ m.objs[o].vs = "moved"}
RECURSIVE Close(_, _)
Close(m, S) ==
  LET nxt == S \cup UNION {Ptrs(m.objs[o]) : o \in {x \in S : Holds(m, x)}}
  IN IF nxt = S THEN S ELSE Close(m, nxt)
Reach(m) == Close(m, RootSet(m))
\* objects reachable by the program, excluding the moved-out shells themselves
ReachLive(m) == {o \in Reach(m) : o \in Ids(m) => m.objs[o].vs # "moved"}

CountIn(sq, o) == Cardinality({i \in DOMAIN sq : sq[i] = o})
RECURSIVE SumOver(_, _, _)
SumOver(m, S, o) == IF S = {} THEN 0 ELSE LET a == CHOOSE x \in S : TRUE IN
                      CountIn(m.objs[a].s, o) + CountIn(m.objs[a].p, o) + Cardinality({pr \in m.objs[a].caps : pr[2] = o}) + SumOver(m, S \ {a}, o)
RECURSIVE WSumOver(_, _, _)
WSumOver(m, S, o) == IF S = {} THEN 0 ELSE LET a == CHOOSE x \in S : TRUE IN
                      CountIn(m.objs[a].w, o) + WSumOver(m, S \ {a}, o)
\* number of Cc pointers to o that currently exist (handles + fields)
Cnt(m, o) == m.objs[o].roots + SumOver(m, Ids(m), o)
WCnt(m, o) == m.objs[o].wroots + WSumOver(m, Ids(m), o)
\* the Weak handed to a running new_cyclic closure also exists
WCntObs(m, o) == WCnt(m, o) + m.objs[o].winfl

\* ------------------------------------------------------------------ verdicts
Flag(m, cond, prop, msg) ==
  IF cond /\ prop \notin DOMAIN m.viol
  THEN [m EXCEPT !.viol = @ @@ (prop :> [msg |-> msg, n |-> m.n, run |-> m.cfg.run, faulted |-> m.faulted, resur |-> m.resur, big |-> m.big, wup |-> m.wup])]
  ELSE m

\* ------------------------------------------------------------------ frames
Depth(m) == Len(m.stack)
Top(m) == m.stack[Len(m.stack)]
Push(m, f) == [m EXCEPT !.stack = Append(@, f)]
Pop(m) == [m EXCEPT !.stack = SubSeq(@, 1, Len(@) - 1)]
OpFrame(op, o, x0, c, ac) == [k |-> "op", op |-> op, o |-> o, c |-> c, ac |-> ac, x0 |-> x0, nested |-> 0, traced |-> FALSE, ncb |-> 0, fault |-> FALSE, aux |-> 0, ntr |-> 0]
CbFrame(cb, o) == [k |-> "cb", op |-> cb, o |-> o, c |-> <<>>, ac |-> <<>>, x0 |-> 0, nested |-> 0, traced |-> FALSE, ncb |-> 0, fault |-> FALSE, aux |-> 0, ntr |-> 0]

CbOpen(m, kinds) == \E i \in DOMAIN m.stack : m.stack[i].k = "cb" /\ m.stack[i].op \in kinds
\* a collection is running: some open op frame saw a trace callback directly inside it
CollRunningBelow(m, lim) == \E i \in 1..lim : m.stack[i].k = "op" /\ m.stack[i].traced
CollRunning(m) == CollRunningBelow(m, Len(m.stack))
\* index of innermost cb frame that is not transparent (closure, action run by clean())
RECURSIVE InnerCb(_, _)
InnerCb(m, i) ==
  IF i = 0 THEN 0
  ELSE LET f == m.stack[i] IN
       IF f.k # "cb" THEN InnerCb(m, i - 1)
       ELSE IF f.op = "closure" THEN InnerCb(m, i - 1)
       ELSE IF f.op = "action" /\ i > 1 /\ m.stack[i - 1].k = "op" /\ m.stack[i - 1].op = "clean" THEN InnerCb(m, i - 1)
       \* the program dropping a value it moved out with try_unwrap: not a destructor run by the crate
       ELSE IF f.op = "drop" /\ i > 1 /\ m.stack[i - 1].k = "op" /\ m.stack[i - 1].op = "dropval" THEN InnerCb(m, i - 1)
       ELSE i
\* "inside a finalizer or destructor" for the op frame about to be pushed / on top
InDestructorCtx(m, lim) == LET i == InnerCb(m, lim) IN i # 0 /\ m.stack[i].op \in {"finalize", "drop", "action"}
\* destructor phase open somewhere: a Drop body, a glue step or a destruction-run action is on the stack
DestrPhaseOpen(m) ==
  \E i \in DOMAIN m.stack :
     \/ (m.stack[i].k = "cb" /\ m.stack[i].op = "drop" /\ ~(i > 1 /\ m.stack[i - 1].k = "op" /\ m.stack[i - 1].op = "dropval"))
     \/ (m.stack[i].k = "op" /\ m.stack[i].op \in {"glue", "gluew", "gluec"})
     \/ (m.stack[i].k = "cb" /\ m.stack[i].op = "action" /\ ~(i > 1 /\ m.stack[i - 1].k = "op" /\ m.stack[i - 1].op = "clean"))

\* a payload callback on object o (trace / finalize / destructor body) is still running
OwnCbOpen(m, o) == \E i \in DOMAIN m.stack : m.stack[i].k = "cb" /\ m.stack[i].o = o /\ m.stack[i].op \in {"trace", "finalize", "drop"}

SetTopField(m, f, v) == [m EXCEPT !.stack[Len(m.stack)][f] = v]
\* mark every open frame as having seen a fault / a finalize-or-drop callback
MarkAll(m, f, v) == [m EXCEPT !.stack = [i \in DOMAIN @ |-> [@[i] EXCEPT ![f] = v]]]
BumpNcb(m) == [m EXCEPT !.stack = [i \in DOMAIN @ |-> [@[i] EXCEPT !.ncb = @ + 1]]]

DropLike == {"drop", "clear", "glue"}
SlotUpd(ob, k, i, v) == IF k = "p" THEN [ob EXCEPT !.p[i] = v] ELSE IF k = "w" THEN [ob EXCEPT !.w[i] = v] ELSE [ob EXCEPT !.s[i] = v]
SlotGet(ob, k, i) == IF k = "p" THEN ob.p[i] ELSE IF k = "w" THEN ob.w[i] ELSE ob.s[i]
SlotOk(m, a, k, i) == Known(m, a) /\ i \in DOMAIN (IF k = "p" THEN m.objs[a].p ELSE IF k = "w" THEN m.objs[a].w ELSE m.objs[a].s)

\* ------------------------------------------------------------------ call
InFinalizerDirect(m) == LET i == InnerCb(m, Len(m.stack)) IN i # 0 /\ m.stack[i].op = "finalize"
NewArmed(m) == IF ~m.cfg.fin THEN "yes"
               ELSE IF InFinalizerDirect(m) THEN "no"
               ELSE IF CbOpen(m, {"finalize"}) THEN "any" ELSE "yes"

OnCall(m0, e) ==
  LET m == IF Depth(m0) = 0 THEN [m0 EXCEPT !.seen = {}] ELSE m0
      op == e.op
      o == Get(e, "o", 0)
      fr0 == OpFrame(op, o, Get(e, "x", m.x), e, m.acfg)
      \* clean(): remember whether the Cleaner was still there and whether the action had run
      fr == IF op = "clean" /\ e.c \in DOMAIN m.acts /\ m.acts[e.c].a \notin m.cgone /\ m.acts[e.c].runs = 0 THEN [fr0 EXCEPT !.aux = 1] ELSE fr0
      harness(mm, c, msg) == Flag(mm, c, "HARNESS", msg)
      m1 ==
        CASE op \in {"new", "newcyc"} ->
               LET mm == harness(m, Known(m, o) /\ ~(m.objs[o].bs \in {"none", "freed"} /\ m.objs[o].vs \in {"dropped", "none", "moved", "uninit"}), "new of an id still in use")
               IN [mm EXCEPT !.objs = (o :> [NoObj EXCEPT !.vs = IF op = "new" THEN "pending" ELSE "uninit",
                                                          !.s = [i \in 1..m.cfg.ns |-> 0], !.p = [i \in 1..m.cfg.np |-> 0], !.w = [i \in 1..m.cfg.nw |-> 0],
                                                          !.armed = NewArmed(m), !.cyc = (op = "newcyc"), !.winfl = IF op = "newcyc" THEN 1 ELSE 0]) @@ @]
          [] op = "drop" ->
               IF Known(m, o) /\ m.objs[o].roots > 0
               THEN [m EXCEPT !.objs[o].roots = @ - 1, !.objs[o].infl = @ + 1]
               ELSE harness(m, TRUE, "drop of a handle the ghost does not know")
          [] op = "glue" /\ e.k = "c" ->
               IF Known(m, e.a) /\ <<e.i, o>> \in m.objs[e.a].caps /\ Known(m, o)
               THEN [m EXCEPT !.objs[e.a].caps = @ \ {<<e.i, o>>}, !.objs[o].infl = @ + 1]
               ELSE harness(m, TRUE, "drop of a captured pointer the ghost does not know")
          [] op = "gluec" -> [m EXCEPT !.cgone = @ \cup {e.a}]     \* the drop of this Cleaner has begun
          [] op = "register" ->
               LET t == Get(e, "t", 0)
                   mid == 100 + e.a
                   m1a == IF t # 0 THEN (IF Known(m, t) /\ m.objs[t].roots > 0 /\ Known(m, e.a)
                                       THEN [m EXCEPT !.objs[t].roots = @ - 1, !.objs[e.a].caps = @ \cup {<<e.c, t>>}]
                                       ELSE harness(m, TRUE, "register captures a handle the ghost does not know")) ELSE m
                   fresh == ~Known(m1a, mid) \/ (m1a.objs[mid].bs \in {"none", "freed"} /\ ~m1a.objs[mid].mlive /\ m1a.objs[mid].wroots = 0)
               IN IF fresh THEN [m1a EXCEPT !.objs = (mid :> [NoObj EXCEPT !.vs = "pending", !.ismap = TRUE, !.armed = "any"]) @@ @] ELSE m1a
          [] op = "dropcl" ->
               LET c == e.c IN
               IF c \in DOMAIN m.acts /\ Known(m, 100 + m.acts[c].a) /\ m.objs[100 + m.acts[c].a].wroots > 0
               THEN [m EXCEPT !.objs[100 + m.acts[c].a].wroots = @ - 1]
               ELSE harness(m, TRUE, "dropcl of unknown cleanable")
          [] op \in {"clear", "glue"} ->
               IF SlotOk(m, e.a, e.k, e.i) /\ SlotGet(m.objs[e.a], e.k, e.i) = o /\ Known(m, o)
               THEN [m EXCEPT !.objs[e.a] = SlotUpd(@, e.k, e.i, 0), !.objs[o].infl = @ + 1]
               ELSE harness(m, TRUE, "clear/glue of a slot the ghost does not know")
          [] op \in {"clearw", "gluew"} ->
               IF SlotOk(m, e.a, "w", e.i)
               THEN [m EXCEPT !.objs[e.a] = SlotUpd(@, "w", e.i, 0)]
               ELSE harness(m, TRUE, "clearw/gluew of a slot the ghost does not know")
          [] op = "unwrap" ->
               IF Known(m, o) /\ m.objs[o].roots > 0
               THEN [m EXCEPT !.objs[o].roots = @ - 1, !.objs[o].infl = @ + 1]
               ELSE harness(m, TRUE, "unwrap of unknown handle")
          [] op = "dropn" ->
               IF Known(m, o) /\ m.objs[o].roots >= e.n
               THEN [m EXCEPT !.objs[o].roots = @ - e.n, !.objs[o].infl = @ + e.n]
               ELSE harness(m, TRUE, "dropn of handles the ghost does not know")
          [] op = "dropwn" ->
               IF Known(m, o) /\ m.objs[o].wroots >= e.n
               THEN [m EXCEPT !.objs[o].wroots = @ - e.n]
               ELSE harness(m, TRUE, "dropwn of handles the ghost does not know")
          [] op = "dropw" ->
               IF Known(m, o) /\ m.objs[o].wroots > 0
               THEN [m EXCEPT !.objs[o].wroots = @ - 1]
               ELSE harness(m, TRUE, "dropw of unknown handle")
          [] OTHER -> m
  IN Push(m1, fr)

\* ------------------------------------------------------------------ observations at ret
ScOk(m, o, sc) == LET c == Cnt(m, o) IN sc >= c /\ sc <= c + m.objs[o].infl + m.objs[o].slack

RECURSIVE CheckSc(_, _, _)
CheckSc(m, sq, i) ==
  IF i > Len(sq) THEN m ELSE
  LET t == sq[i]  o == t[1] IN
  IF ~Known(m, o) THEN CheckSc(Flag(m, TRUE, "HARNESS", "sc of unknown object"), sq, i + 1) ELSE
  LET ob == m.objs[o]
      m1 == Flag(m, ob.vs # "live" \/ ob.bs # "live", "C01", "program-held Cc points to an object whose value/box is gone: " \o ToString(o))
      m2 == Flag(m1, ~ScOk(m, o, t[2]), "C04", "strong_count " \o ToString(t[2]) \o " of object " \o ToString(o) \o " differs from the number of Cc pointers " \o ToString(Cnt(m, o)))
      m3 == Flag(m2, m.cfg.weak /\ t[3] # WCntObs(m, o), "C09", "weak_count " \o ToString(t[3]) \o " of object " \o ToString(o) \o " differs from the number of Weak pointers " \o ToString(WCnt(m, o)))
      m4 == Flag(m3, m.cfg.fin /\ ob.armed # "any" /\ t[4] # (ob.armed = "no"), "C05", "already_finalized() of object " \o ToString(o) \o " is wrong")
      m5 == IF ob.armed = "any" THEN [m4 EXCEPT !.objs[o].armed = IF t[4] THEN "no" ELSE "yes"] ELSE m4
  IN CheckSc(m5, sq, i + 1)

RECURSIVE CheckAd(_, _, _)
CheckAd(m, sq, i) ==
  IF i > Len(sq) THEN m ELSE
  LET t == sq[i]  o == t[1] IN
  IF ~Known(m, o) THEN CheckAd(m, sq, i + 1) ELSE
  LET ob == m.objs[o]
      m1 == Flag(m, ob.bs = "live" /\ (t[2] # ob.blk \/ ~t[6]), "C20", "Cc does not point into its own live allocation: object " \o ToString(o))
      m2 == Flag(m1, t[4] # 0, "C20", "payload address misaligned: object " \o ToString(o))
      m3 == Flag(m2, ~t[5], "C20", "Deref/AsRef/Borrow or clones disagree on the address: object " \o ToString(o))
      m4 == Flag(m3, ob.off # -1 /\ ob.off # t[3], "C20", "payload address moved during the object's life: object " \o ToString(o))
  IN CheckAd([m4 EXCEPT !.objs[o].off = t[3]], sq, i + 1)

WeakScExpected(m, o, v) ==
  LET ob == m.objs[o] IN
  IF ob.vs \in {"dropped", "moved", "uninit", "none"} \/ ob.bs # "live" THEN v = 0
  \* objects caught in an unwound destructor phase may have been marked as dropped without being dropped (permitted leak)
  ELSE IF (o \in Reach(m) \/ ~DestrPhaseOpen(m)) /\ ~ob.tainted THEN ScOk(m, o, v)
  ELSE v = 0 \/ ScOk(m, o, v)

RECURSIVE CheckWk(_, _, _)
CheckWk(m, sq, i) ==
  IF i > Len(sq) THEN m ELSE
  LET t == sq[i]  o == t[1] IN
  IF ~Known(m, o) THEN CheckWk(Flag(m, TRUE, "HARNESS", "wk of unknown object"), sq, i + 1) ELSE
  LET m1 == Flag(m, t[3] # WCntObs(m, o), "C09", "Weak::weak_count " \o ToString(t[3]) \o " of object " \o ToString(o) \o " differs from the number of Weak pointers " \o ToString(WCnt(m, o)))
      m2 == Flag(m1, ~WeakScExpected(m, o, t[2]), "C09", "Weak::strong_count " \o ToString(t[2]) \o " of object " \o ToString(o) \o " is wrong")
  IN CheckWk(m2, sq, i + 1)

CheckRw(m, rw) ==
  LET ids == {rw[i][1] : i \in DOMAIN rw}
      bad == {i \in DOMAIN rw : ~rw[i][2]}
      m1 == Flag(m, bad # {}, "C01", "dereferencing a reachable object does not yield its intact value: object " \o (IF bad = {} THEN "" ELSE ToString(rw[CHOOSE i \in bad : TRUE][1])))
      gone == {o \in ReachLive(m) : ~(Known(m, o) /\ m.objs[o].vs = "live" /\ m.objs[o].bs = "live")}
      m2 == Flag(m1, gone # {}, "C01", "reachable object was dropped or freed: " \o ToString(gone))
      m3 == Flag(m2, ids # Reach(m), "C01", "objects reached through real pointers " \o ToString(ids) \o " differ from the ghost's reachable set " \o ToString(Reach(m)))
  IN m3

CheckWalk(m, e) ==
  LET wk == e.walk
      ids == Rng(wk)
      m1 == Flag(m, e.bf # -1 /\ (e.bf # Len(wk) \/ e.wsz # Len(wk) \/ ~e.lk), "C11", "buffered_objects_count " \o ToString(e.bf) \o " / cached size differ from the buffer list walk of length " \o ToString(Len(wk)))
      m2 == Flag(m1, Cardinality(ids) # Len(wk) \/ \E x \in ids : x <= 0, "C11", "buffer contains duplicates, freed or unknown boxes")
      m3 == Flag(m2, \E x \in ids : x > 0 /\ Known(m, x) /\ m.objs[x].bs # "live", "C11", "buffer contains an object whose allocation is gone")
  IN m3

CheckObs(m, e) ==
  IF "by" \notin DOMAIN e THEN (IF "x" \in DOMAIN e THEN [m EXCEPT !.x = e.x] ELSE m) ELSE
  LET m0 == Flag(m, e.it, "C12", "is_tracing() is true outside Trace::trace")
      m1 == Flag(m0, e.by # m.bytes, "C11", "allocated_bytes " \o ToString(e.by) \o " differs from the live object allocations " \o ToString(m.bytes))
      m2 == IF "sc" \in DOMAIN e THEN CheckSc(m1, e.sc, 1) ELSE m1
      m3 == IF "ad" \in DOMAIN e THEN CheckAd(m2, e.ad, 1) ELSE m2
      m4 == IF "wk" \in DOMAIN e THEN CheckWk(m3, e.wk, 1) ELSE m3
      m5 == IF "rw" \in DOMAIN e THEN CheckRw(m4, e.rw) ELSE m4
      m6 == IF "walk" \in DOMAIN e THEN CheckWalk(m5, e) ELSE m5
      m7 == Flag(m6, "obspanic" \in DOMAIN e, "C07", "observing the program's own handles panicked")
      bigNow == ("sc" \in DOMAIN e /\ \E i \in DOMAIN e.sc : e.sc[i][2] >= 16000 \/ e.sc[i][3] >= 32000)
  IN [m7 EXCEPT !.big = @ \/ bigNow, !.x = e.x, !.lastbf = IF "walk" \in DOMAIN e THEN Len(e.walk) ELSE @,
                   !.wn = IF "walk" \in DOMAIN e THEN m.n ELSE @]

MaxStrong == 16382
MaxWeak == 32767

\* ------------------------------------------------------------------ policy facts (config.rs)
Pow2Mult(thr) == \E k \in 0..24 : thr = 100 * (2 ^ k)
ThresholdOk(thr, bytes, pn, pd) ==
  /\ Pow2Mult(thr) /\ thr >= 100 /\ thr > bytes
  /\ (pn > 0 => (bytes * pd > thr * pn \/ 2 * bytes >= thr \/ thr = 100))

\* ------------------------------------------------------------------ ret
InWalk(e, o) == "walk" \in DOMAIN e /\ o \in Rng(e.walk)
CanStartCollection == {"collect", "new", "newcyc", "register", "tcollect"}   \* tcollect: collect_cycles() called while the thread-locals are being destroyed (may find the buffer gone)

\* leftover garbage that is not justified by an untraced (pinning) field
Unjustified(m) ==
  LET L == {o \in Ids(m) : m.objs[o].vs = "live" /\ m.objs[o].bs = "live" /\ ~m.objs[o].tainted /\ ~m.objs[o].ismap} \ Reach(m)
      pins == UNION {Rng(m.objs[a].p) \cup CapTargets(m.objs[a]) : a \in L} \ {0}
  IN L \ Close(m, pins)

OnRet(m00, e) ==
  IF Depth(m00) = 0 \/ Top(m00).k # "op" \/ Top(m00).op # e.op
  THEN Flag(m00, TRUE, "HARNESS", "ret does not match the open call") ELSE
  LET fr == Top(m00)
      op == e.op
      o == fr.o
      pan == e.panic # ""
      lim == Len(m00.stack) - 1          \* frames enclosing this op
      inDestr == InDestructorCtx(m00, lim)
      collOuter == CollRunningBelow(m00, lim)
      m0 == Pop(m00)
      \* ---- ghost updates decided by the result
      res == Get(e, "res", "")
      mA ==
        CASE op \in DropLike /\ Known(m0, o) ->
               [m0 EXCEPT !.objs[o].infl = @ - 1, !.objs[o].slack = IF pan THEN @ + 1 ELSE @]
          [] op = "clone" /\ ~pan /\ Known(m0, o) -> [m0 EXCEPT !.objs[o].roots = @ + 1]
          [] op = "clonen" /\ ~pan /\ Known(m0, o) -> [m0 EXCEPT !.objs[o].roots = @ + fr.c.n]
          [] op = "clonewn" /\ ~pan /\ Known(m0, o) -> [m0 EXCEPT !.objs[o].wroots = @ + fr.c.n]
          [] op = "dropn" /\ Known(m0, o) -> [m0 EXCEPT !.objs[o].infl = @ - fr.c.n, !.objs[o].slack = IF pan THEN @ + fr.c.n ELSE @]
          [] op = "new" /\ ~pan /\ Known(m0, o) -> [m0 EXCEPT !.objs[o].roots = @ + 1]
          [] op = "newcyc" /\ Known(m0, o) ->
               IF pan THEN [m0 EXCEPT !.objs[o].winfl = 0]
               ELSE [m0 EXCEPT !.objs[o].roots = @ + 1, !.objs[o].winfl = 0, !.objs[o].vs = IF @ = "uninit" THEN "live" ELSE @,
                               !.objs[o].w = IF fr.aux = 1 /\ Len(@) >= 1 THEN [@ EXCEPT ![1] = o] ELSE @]
          [] op = "register" /\ ~pan ->
               [m0 EXCEPT !.acts = (fr.c.c :> [a |-> fr.c.a, runs |-> 0, t |-> Get(fr.c, "t", 0)]) @@ @,
                          !.objs[100 + fr.c.a].wroots = @ + 1]
          [] op = "savew" /\ ~pan /\ Known(m0, o) -> [m0 EXCEPT !.objs[o].wroots = @ + 1]
          [] op = "wprobe" /\ res = "some" /\ Known(m0, o) -> [m0 EXCEPT !.objs[o].roots = @ + 1]
          [] op = "setcfg" /\ ~pan -> [m0 EXCEPT !.acfg = [auto |-> fr.c.auto, pn |-> fr.c.pn, pd |-> fr.c.pd, bt |-> fr.c.bt]]
          [] op = "clonef" /\ ~pan ->
               LET t == Get(e, "o", 0) IN
               IF Known(m0, t) THEN [m0 EXCEPT !.objs[t].roots = @ + 1] ELSE Flag(m0, TRUE, "HARNESS", "clonef of unknown target")
          [] op = "set" /\ ~pan /\ SlotOk(m0, fr.c.a, fr.c.k, fr.c.i) -> [m0 EXCEPT !.objs[fr.c.a] = SlotUpd(@, fr.c.k, fr.c.i, fr.c.b)]
          [] op = "setw" /\ ~pan /\ SlotOk(m0, fr.c.a, "w", fr.c.i) -> [m0 EXCEPT !.objs[fr.c.a] = SlotUpd(@, "w", fr.c.i, fr.c.o)]
          [] op = "put" /\ ~pan /\ SlotOk(m0, fr.c.a, fr.c.k, fr.c.i) /\ Known(m0, o) /\ m0.objs[o].roots > 0 ->
               [m0 EXCEPT !.objs[o].roots = @ - 1, !.objs[fr.c.a] = SlotUpd(@, fr.c.k, fr.c.i, o)]
          [] op = "take" /\ ~pan /\ SlotOk(m0, fr.c.a, fr.c.k, fr.c.i) /\ Known(m0, Get(e, "o", 0)) ->
               [m0 EXCEPT !.objs[e.o].roots = @ + 1, !.objs[fr.c.a] = SlotUpd(@, fr.c.k, fr.c.i, 0)]
          [] op = "unwrap" /\ Known(m0, o) ->
               IF res = "ok" THEN [m0 EXCEPT !.objs[o].infl = @ - 1, !.objs[o].vs = "moved"]
               ELSE [m0 EXCEPT !.objs[o].infl = @ - 1, !.objs[o].roots = @ + 1]
          [] op = "fagain" /\ res = "ok" /\ Known(m0, o) -> [m0 EXCEPT !.objs[o].armed = "yes"]
          [] op = "downgrade" /\ ~pan /\ Known(m0, o) -> [m0 EXCEPT !.objs[o].wroots = @ + 1]
          [] op = "clonew" /\ ~pan /\ Known(m0, o) -> [m0 EXCEPT !.objs[o].wroots = @ + 1]
          [] op = "upgrade" /\ res = "some" /\ Known(m0, o) -> [m0 EXCEPT !.objs[o].roots = @ + 1]
          [] op = "upgradef" /\ res = "some" /\ Known(m0, Get(e, "o", 0)) -> [m0 EXCEPT !.objs[e.o].roots = @ + 1]
          [] OTHER -> m0
      \* ---- exec accounting (C11-b / C12-b)
      hasx == "x" \in DOMAIN e
      own == IF hasx THEN e.x - fr.x0 - fr.nested ELSE 0
      mB == IF hasx /\ Depth(mA) > 0 THEN [mA EXCEPT !.stack = [i \in DOMAIN @ |-> [@[i] EXCEPT !.nested = @ + own]]] ELSE mA
      mC == Flag(mB, hasx /\ (own < 0 \/ own > 1), "C11", "executions_count changed by " \o ToString(own) \o " in one " \o op)
      mD == Flag(mC, hasx /\ own = 1 /\ op \notin CanStartCollection, "C11", "executions_count increased in " \o op)
      mE == Flag(mD, hasx /\ own = 0 /\ fr.traced, "C11", "a collection ran without being counted")
      mF == Flag(mE, hasx /\ own = 1 /\ collOuter, "C12", "a collection started while another one was in progress")
      mG == Flag(mF, hasx /\ ~pan /\ op = "collect" /\ lim = 0 /\ own = 0 /\ m00.lastbf > 0, "C07", "collect_cycles() did not start a collection although objects are buffered")
      \* with finalization a collection loops until the buffer is empty or ten passes were made; every pass makes at least
      \* one trace call, so a collection that made fewer than ten cannot have given up: whatever was buffered has been processed
      mG2 == Flag(mG, m00.cfg.fin /\ hasx /\ ~pan /\ ~m00.faulted /\ op = "collect" /\ lim = 0 /\ own = 1 /\ "walk" \in DOMAIN e /\ Len(e.walk) > 0 /\ fr.ntr < 10,
                  "C11", ToString(Len(e.walk)) \o " object(s) still buffered after a complete collection (" \o ToString(fr.ntr) \o " trace calls: the pass limit was not reached)")
      \* ---- panic accounting (C07-b/c)
      mH == Flag(mG2, fr.fault /\ ~pan, "C07", "an injected panic was swallowed by " \o op)
      \* "tracing": the debug-build refusal of a Weak::clone attempted by a Trace impl (probe event), which surfaces like a fault
      mI == Flag(mH, fr.fault /\ lim = 0 /\ pan /\ e.panic \notin {"inj", "tracing"}, "C07", "an injected panic was replaced by " \o e.panic)
      \* documented saturation panic: only at the limit, and only from the operations that create a pointer
      StrongMakers == {"clone", "clonef", "set", "upgrade", "upgradef", "clonen"}
      WeakMakers == {"downgrade", "clonew", "setw", "savew", "clonewn"}
      tgt == IF op \in {"clonef", "upgradef"} THEN (IF SlotOk(m00, fr.c.a, fr.c.k, fr.c.i) THEN SlotGet(m00.objs[fr.c.a], fr.c.k, fr.c.i) ELSE 0)
             ELSE IF op = "set" THEN fr.c.b ELSE o
      atMaxS == Known(m00, tgt) /\ Cnt(m00, tgt) + m00.objs[tgt].slack >= MaxStrong
      atMaxW == Known(m00, tgt) /\ WCntObs(m00, tgt) >= MaxWeak
      okMax == (op \in StrongMakers /\ atMaxS) \/ (op \in WeakMakers /\ atMaxW)
      \* the debug-build refusals ("Cannot ... while tracing!") may only fire while a Trace::trace call is running
      porig == IF m00.punw # "" THEN m00.punw ELSE op
      tracingBad == e.panic = "tracing" /\ ~CbOpen(m00, {"trace"}) /\ (m00.punw \notin {"", "-"} \/ (m00.punw = "" /\ ~fr.traced))
      mIt0 == Flag(mI, tracingBad, "C12",
                  porig \o " was refused with a 'while tracing' panic although no Trace::trace call is running")
      mIt == Flag(mIt0, tracingBad /\ porig \in {"upgrade", "upgradef"}, "C08",
                  "Weak::upgrade panicked ('while tracing') instead of returning None, outside any Trace::trace call")
      \* a panic that neither the harness injected nor the documentation announces came out of the library itself
      ownPanic == lim = 0 /\ ~fr.fault /\ Len(e.panic) > 6 /\ SubSeq(e.panic, 1, 6) = "other:"
      mIu == Flag(mIt, ownPanic, "C07", "the library panicked by itself in " \o op \o " (" \o e.panic \o ")")
      mI0 == Flag(mIu, e.panic = "max" /\ ~okMax, "C16", op \o " panicked with a saturation error below the supported maximum")
      mI1 == Flag(mI0, ~pan /\ ((op \in StrongMakers \ {"clonen"} /\ atMaxS /\ ~(op \in {"upgrade", "upgradef"} /\ res = "none")) \/ (op \in WeakMakers \ {"clonewn"} /\ atMaxW)), "C16",
                  op \o " succeeded beyond the supported maximum number of pointers")
      unexpl == pan /\ ~fr.fault /\ e.panic \notin {"max", "unwind"} /\ ~(e.panic = "fagain" /\ op = "fagain")
      mJ == Flag(mI1, unexpl, IF m00.faulted THEN "C07" ELSE IF op \in DropLike \cup {"dropval"} THEN "C04" ELSE IF op = "collect" THEN "C02" ELSE "C01", "unexpected panic " \o e.panic \o " in " \o op)
      mK == IF pan /\ lim = 0 THEN [mJ EXCEPT !.faulted = TRUE] ELSE mJ
      \* ---- taint after a caught panic: everything unreachable now may leak (skipped destructors, marked as dropped)
      mK2 == IF lim = 0 /\ pan
             THEN [mK EXCEPT !.objs = [x \in DOMAIN @ |-> IF x \in Reach(mK) THEN @[x] ELSE [@[x] EXCEPT !.tainted = TRUE]]]
             ELSE mK
      \* ---- observations
      mL == CheckObs(mK2, e)
      \* ---- per-op postconditions
      unique == Known(m00, o) /\ Cnt(m00, o) = 0 /\ m00.objs[o].infl = 1 /\ m00.objs[o].slack = 0
      mM ==
        CASE op = "unwrap" /\ ~pan ->
               LET a1 == Flag(mL, inDestr /\ res = "ok", "C12", "try_unwrap succeeded inside a finalizer or destructor")
                   a2 == Flag(a1, ~inDestr /\ ~collOuter /\ ~CollRunning(m00) /\ unique /\ res # "ok" /\ ~m00.objs[o].tainted, "C13", "try_unwrap failed on a unique pointer")
                   a3 == Flag(a2, res = "ok" /\ Known(m00, o) /\ (Cnt(m00, o) > 0), "C13", "try_unwrap succeeded although other Cc pointers exist")
                   a4 == Flag(a3, res = "ok" /\ (~Get(e, "vok", TRUE) \/ fr.ncb > 0), "C13", "try_unwrap did not return the value unchanged / ran a callback")
                   a5 == Flag(a4, res = "ok" /\ Known(mL, o) /\ mL.objs[o].bs # "freed", "C13", "try_unwrap did not release the allocation")
                   a6 == Flag(a5, res = "err" /\ ~Get(e, "same", TRUE), "C13", "try_unwrap returned Err with a different pointer")
                   a7 == Flag(a6, res = "ok" /\ InWalk(e, o), "C13", "unwrapped object still buffered")
                   \* Err leaves the buffering unchanged: judged for top-level calls whose call event directly follows a return
                   \* with a buffer walk (nothing can have touched the buffer in between)
                   a8 == Flag(a7, res = "err" /\ lim = 0 /\ fr.ncb = 0 /\ "walk" \in DOMAIN e /\ m00.wn = m00.n - 2 /\ Len(e.walk) # m00.lastbf,
                              "C13", "a failed try_unwrap changed the buffer (" \o ToString(m00.lastbf) \o " -> " \o ToString(Len(e.walk)) \o " objects)")
               IN a8
          [] op = "fagain" ->
               LET a1 == Flag(mL, inDestr /\ res # "fagain", "C12", "finalize_again did not panic inside a finalizer or destructor")
                   a2 == Flag(a1, ~inDestr /\ ~collOuter /\ ~CollRunning(m00) /\ res # "ok" /\ e.panic # "fagain", "C12", "finalize_again failed outside a collection")
               IN a2
          [] op = "gluec" /\ ~pan /\ ~mL.faulted ->
               LET late == {c \in DOMAIN mL.acts : mL.acts[c].a = fr.c.a /\ mL.acts[c].runs = 0}
               IN Flag(mL, late # {}, "C10", "cleaning actions " \o ToString(late) \o " had not run when the drop of their Cleaner returned")
          [] op = "clean" /\ ~pan ->
               Flag(mL, fr.aux = 1 /\ fr.c.c \in DOMAIN mL.acts /\ mL.acts[fr.c.c].runs = 0 /\ ~mL.faulted, "C10", "clean() did not run its cleaning action although the Cleaner was alive")
          [] op = "wnew" ->
               Flag(mL, res # "none" \/ Get(e, "wsc", 0) # 0 \/ Get(e, "wwc", 0) # 0 \/ ~Get(e, "peq", TRUE), "C08", "Weak::new() upgrades or reports non-zero counts")
          [] op = "wprobe" ->
               Flag(mL, res # "none" \/ Get(e, "wsc", 0) # 0, "C14", "the Weak given to the new_cyclic closure is not dead inside the closure")
          [] op = "newcyc" ->
               LET ob == IF Known(mL, o) THEN mL.objs[o] ELSE NoObj
                   a1 == Flag(mL, pan /\ ob.bs = "live", "C14", "new_cyclic panicked but the allocation was not released")
                   a2 == Flag(a1, pan /\ ob.mlive /\ WCnt(mL, o) = 0, "C14", "new_cyclic panicked but the side record was not released")
                   a3 == Flag(a2, ~pan /\ (ob.vs # "live" \/ ob.bs # "live"), "C14", "new_cyclic returned a pointer to a value that is not alive")
               IN a3
          [] op \in {"clone", "mark", "downgrade"} /\ ~pan -> Flag(mL, InWalk(e, o), "C11", op \o " left the object in the buffer")
          [] op \in {"clonef", "take"} /\ ~pan ->
               LET t == Get(e, "o", 0)
                   a1 == IF op = "clonef" THEN Flag(mL, InWalk(e, t), "C11", "clone left the object in the buffer") ELSE mL
               IN [a1 EXCEPT !.resur = @ \/ (Depth(m00) > 1 /\ t \notin Reach(m00))]
          [] op = "upgrade" ->
               LET ob == IF Known(m00, o) THEN m00.objs[o] ELSE NoObj
                   a1 == Flag(mL, res = "some" /\ (ob.vs # "live" \/ ob.bs # "live" \/ ~Get(e, "vok", TRUE)), "C08", "Weak::upgrade gave access to a dropped or freed value: object " \o ToString(o))
                   must == ob.vs = "live" /\ ob.bs = "live" /\ ~ob.tainted /\ Cnt(m00, o) >= 1 /\ (o \in Reach(m00) \/ ~DestrPhaseOpen(m00))
                   a2 == Flag(a1, res = "none" /\ must /\ ~pan, "C08", "Weak::upgrade failed although the value is alive: object " \o ToString(o))
                   a3 == Flag(a2, res = "some" /\ InWalk(e, o), "C11", "upgrade left the object in the buffer")
               IN [a3 EXCEPT !.resur = @ \/ (res = "some" /\ o \notin Reach(m00)),
                             !.wup = @ \/ (res = "some" /\ o \notin Reach(m00) /\ DestrPhaseOpen(m00))]
          [] op = "upgradef" ->
               LET t == Get(e, "o", 0)
                   ob == IF Known(m00, t) THEN m00.objs[t] ELSE NoObj
                   a1 == Flag(mL, res = "some" /\ (ob.vs # "live" \/ ob.bs # "live" \/ ~Get(e, "vok", TRUE)), "C08", "Weak::upgrade gave access to a dropped or freed value: object " \o ToString(t))
                   must == ob.vs = "live" /\ ob.bs = "live" /\ ~ob.tainted /\ Cnt(m00, t) >= 1 /\ (t \in Reach(m00) \/ ~DestrPhaseOpen(m00))
                   a2 == Flag(a1, res = "none" /\ must /\ ~pan, "C08", "Weak::upgrade failed although the value is alive: object " \o ToString(t))
               IN [a2 EXCEPT !.resur = @ \/ (res = "some" /\ t \notin Reach(m00)),
                             !.wup = @ \/ (res = "some" /\ t \notin Reach(m00) /\ DestrPhaseOpen(m00))]
          [] op \in {"drop", "clear"} /\ ~pan /\ lim = 0 /\ Known(mL, o) ->
               Flag(mL, "walk" \in DOMAIN e /\ e.bf # -1 /\ mL.objs[o].vs = "live" /\ mL.objs[o].bs = "live" /\ Cnt(mL, o) >= 1 /\ mL.objs[o].slack = 0 /\ ~InWalk(e, o),
                    "C11", "object " \o ToString(o) \o " was not buffered although one of several Ccs to it was dropped")
          [] OTHER -> mL
      \* ---- automatic collection policy (C15)
      hasPol == hasx /\ op \in {"new", "newcyc"} /\ "thr" \in DOMAIN fr.c
      expTrig == hasPol /\ fr.ac.auto /\ ~collOuter /\ fr.c.bf # -1
                 /\ (fr.c.by > fr.c.thr \/ (fr.ac.bt # 0 /\ fr.c.bf > fr.ac.bt))
      mM1 == Flag(mM, hasPol /\ own = 1 /\ ~expTrig, "C15", "creating a Cc started a collection although the trigger condition does not hold")
      mM2 == Flag(mM1, hasPol /\ own = 0 /\ expTrig, "C15", "creating a Cc did not start a collection although the trigger condition holds")
      adjBytes == IF op = "new" /\ Known(mM, o) /\ mM.objs[o].bs = "live" THEN e.by - mM.objs[o].size ELSE e.by
      chkThr == hasx /\ ~pan /\ own = 1 /\ op \in {"new", "collect"} /\ "thr" \in DOMAIN e /\ "by" \in DOMAIN e /\ e.thr # -1
      mM3 == Flag(mM2, chkThr /\ ~ThresholdOk(e.thr, adjBytes, mM.acfg.pn, mM.acfg.pd), "C15",
                  "byte threshold " \o ToString(IF chkThr THEN e.thr ELSE 0) \o " after a collection violates the policy for " \o ToString(adjBytes) \o " allocated bytes")
      \* ---- depth-0 checks
      clean0 == lim = 0 /\ ~pan /\ ~mM.faulted
      mMx == mM3
      zero == {x \in Ids(mM3) : mM3.objs[x].vs = "live" /\ mM3.objs[x].bs = "live" /\ ~mM3.objs[x].tainted /\ ~mM3.objs[x].ismap /\ Cnt(mM3, x) = 0}
      mN == Flag(mM3, clean0 /\ zero # {}, "C04", "objects without any Cc pointer were not reclaimed when their last owner was dropped: " \o ToString(zero))
      undead == {x \in Ids(mM3) : mM3.objs[x].vs = "dropped" /\ mM3.objs[x].bs = "live" /\ ~mM3.objs[x].tainted}
      mO == Flag(mN, clean0 /\ undead # {}, "C03", "allocation of a dropped value not released when the call returned: " \o ToString(undead))
      orphanMeta == {x \in Ids(mM3) : mM3.objs[x].mlive /\ mM3.objs[x].bs = "freed" /\ WCnt(mM3, x) = 0}
      mP == Flag(mO, clean0 /\ orphanMeta # {}, "C09", "side record not released although allocation and all Weak pointers are gone: " \o ToString(orphanMeta))
      quiet == clean0 /\ op = "collect" /\ fr.ncb = 0 /\ Get(e, "bf", 0) # -1
      mQ == Flag(mP, quiet /\ Unjustified(mM3) # {}, "C02", "unreachable objects survived a quiescent collect_cycles(): " \o ToString(IF quiet THEN Unjustified(mM3) ELSE {}))
      mR == mQ
      \* ---- forget objects that are completely gone
      gone == {x \in Ids(mR) : mR.objs[x].bs \in {"freed", "none"} /\ mR.objs[x].vs \in {"dropped", "none"} /\ ~mR.objs[x].mlive
                               /\ mR.objs[x].roots = 0 /\ mR.objs[x].infl = 0 /\ Cnt(mR, x) = 0 /\ WCnt(mR, x) = 0 /\ mR.objs[x].caps = {}
                               /\ ~(x + 100 \in Ids(mR) /\ mR.objs[x + 100].ismap)}
      mS == IF lim = 0 /\ gone # {} THEN [mR EXCEPT !.objs = [x \in DOMAIN @ \ gone |-> @[x]]] ELSE mR
      \* the operation in which the panic that is unwinding now was raised (the harness classifies it at the outermost return)
      \* ("-" = raised inside an operation that ran a tracing phase itself, where the debug-build refusals are legitimate)
  IN [mS EXCEPT !.punw = IF lim = 0 THEN "" ELSE IF pan /\ m00.punw = "" THEN (IF fr.traced THEN "-" ELSE op) ELSE m00.punw]

\* ------------------------------------------------------------------ callbacks
OnCb(m, e) ==
  LET o == e.o
      k == e.cb
      known == Known(m, o)
      ob == IF known THEN m.objs[o] ELSE NoObj
      m0 == Flag(m, ~known /\ k # "action", "HARNESS", "callback on unknown object")
  IN
  IF k = "trace" THEN
    LET m1 == Flag(m0, ~e.it, "C12", "is_tracing() is false during Trace::trace")
        m2 == Flag(m1, ~e.ok \/ ob.vs # "live" \/ ob.bs # "live", "C01", "collector traced a dropped or freed object " \o ToString(o))
        m3 == Flag(m2, Depth(m) > 0 /\ Top(m).k = "op" /\ CollRunningBelow(m, Len(m.stack) - 1), "C12", "a collection started while another one was in progress")
        \* the op frame directly enclosing a trace callback hosts a collection
        m4 == IF Depth(m3) > 0 /\ Top(m3).k = "op" THEN SetTopField(SetTopField(m3, "traced", TRUE), "ntr", Top(m3).ntr + 1) ELSE m3
        \* a collection makes at most 10 passes, each traces an object at most twice (counting and root phase)
        bound == 20 * (Cardinality(Ids(m)) + 1)
        m5 == Flag(m4, Depth(m4) > 0 /\ Top(m4).k = "op" /\ Top(m4).ntr > bound, "C06", "one collection made more than " \o ToString(bound) \o " trace calls: it does not terminate within the pass bound")
    IN Push(m5, CbFrame(k, o))
  ELSE IF k = "finalize" THEN
    LET m1 == Flag(m0, ~m.cfg.fin, "C05", "finalize called with finalization disabled")
        m2 == Flag(m1, e.it, "C12", "is_tracing() is true inside a finalizer")
        m3 == Flag(m2, known /\ o \in Reach(m) /\ o \notin m.seen, "C05", "finalizer ran on object " \o ToString(o) \o " which was reachable during the whole call")
        m4 == Flag(m3, known /\ ob.armed = "no", "C05", "object " \o ToString(o) \o " finalized again without finalize_again")
        reachO == Close(m, {o})
        m5 == Flag(m4, ~e.ok \/ \E x \in reachO : x \in Ids(m) /\ (m.objs[x].vs # "live" \/ m.objs[x].bs # "live"), "C05", "finalizer of object " \o ToString(o) \o " sees an object that was already dropped")
        m6 == IF known THEN [m5 EXCEPT !.objs[o].armed = "no"] ELSE m5
    IN Push(BumpNcb(m6), CbFrame(k, o))
  ELSE IF k = "drop" THEN
    LET m1 == Flag(m0, e.it, "C12", "is_tracing() is true inside a destructor")
        m2 == Flag(m1, known /\ ob.vs = "live" /\ o \in Reach(m), "C01", "drop of reachable object " \o ToString(o))
        m3 == Flag(m2, known /\ ob.vs \notin {"live", "moved", "pending"}, IF ob.vs = "uninit" THEN "C14" ELSE "C03", "value of object " \o ToString(o) \o " dropped in state " \o ob.vs)
        m4 == Flag(m3, known /\ ~e.ok /\ ob.vs \in {"live", "moved", "pending"}, "C03", "destructor ran on a corrupted value: object " \o ToString(o))
        m5 == Flag(m4, known /\ m.cfg.fin /\ ob.vs = "live" /\ ob.armed = "yes" /\ ~ob.tainted /\ ~m.faulted, "C05", "object " \o ToString(o) \o " dropped without having been finalized")
        m5b == Flag(m5, known /\ m.cfg.fin /\ ob.vs = "live" /\ ob.armed = "yes" /\ ~ob.tainted /\ ~m.faulted /\ ~CollRunning(m), "C04",
                    "the last-owner drop of object " \o ToString(o) \o " did not finalize it although finalization was due")
        m5c == Flag(m5b, known /\ OwnCbOpen(m, o), "C01", "object " \o ToString(o) \o " is destroyed while one of its own callbacks is still running")
        m6 == IF known /\ ob.vs \in {"live", "moved", "pending"} THEN [m5c EXCEPT !.objs[o].vs = "dropped"] ELSE m5c
    IN Push(BumpNcb(m6), CbFrame(k, o))
  ELSE IF k = "action" THEN
    LET c == o
        kn == c \in DOMAIN m.acts
        m1 == Flag(m, e.it, "C12", "is_tracing() is true inside a cleaning action")
        m2 == Flag(m1, kn /\ m.acts[c].runs >= 1, "C10", "cleaning action " \o ToString(c) \o " ran more than once")
        m3a == Flag(m2, Depth(m) > 0 /\ Top(m).k = "op" /\ Top(m).op = "dropcl", "C10", "dropping a Cleanable ran a cleaning action")
        inOwnClean == Depth(m) > 0 /\ Top(m).k = "op" /\ Top(m).op = "clean" /\ Top(m).c.c = c
        ownerGoing == kn /\ m.acts[c].a \in m.cgone
        m3 == Flag(m3a, kn /\ ~inOwnClean /\ ~ownerGoing /\ ~m.faulted, "C10", "cleaning action " \o ToString(c) \o " ran although neither its clean() was called nor its Cleaner dropped")
        m4 == IF kn THEN [m3 EXCEPT !.acts[c].runs = @ + 1] ELSE Flag(m3, TRUE, "HARNESS", "unknown cleaning action")
    IN Push(m4, CbFrame(k, o))
  ELSE Push(m0, CbFrame(k, o))

\* a callback made directly by collect_cycles / Cc::new / new_cyclic (before its closure) / register comes from a collection
MarkHost(m, e) ==
  IF Depth(m) > 0 /\ Top(m).k = "op" /\ Top(m).op \in {"collect", "new", "newcyc", "register"} /\ e.cb # "closure"
  THEN SetTopField(m, "traced", TRUE)
  \* the closure of new_cyclic runs after the automatic collection (if any) has ended
  ELSE IF Depth(m) > 0 /\ Top(m).k = "op" /\ Top(m).op = "newcyc" /\ e.cb = "closure" THEN SetTopField(m, "traced", FALSE)
  ELSE m

OnCbx(m, e) ==
  IF Depth(m) = 0 \/ Top(m).k # "cb" \/ Top(m).op # e.cb \/ Top(m).o # e.o
  THEN Flag(m, TRUE, "HARNESS", "cbx does not match the open callback")
  ELSE LET m1 == Pop(m)
           m2 == IF e.cb = "closure" /\ ~e.panic /\ Get(e, "sw", FALSE) /\ Depth(m1) > 0 THEN SetTopField(m1, "aux", 1) ELSE m1
       IN IF e.panic THEN MarkAll(m2, "fault", TRUE) ELSE m2

\* ------------------------------------------------------------------ allocator
OnAlloc(m0, e) ==
  LET o == e.o
      \* the spare (empty) map that Cleaner::register drops again when a nested register created the map meanwhile
      m == IF e.k = "box" /\ o > 150 /\ o < 200 /\ (~Known(m0, o) \/ m0.objs[o].bs \in {"none", "freed"})
           THEN [m0 EXCEPT !.objs = (o :> [NoObj EXCEPT !.vs = "pending", !.ismap = TRUE, !.armed = "any"]) @@ @] ELSE m0
  IN
  IF ~Known(m, o) THEN Flag(m, TRUE, "HARNESS", "allocation for unknown object") ELSE
  IF e.k = "box" THEN
    LET m1 == Flag(m, m.objs[o].bs # "none", "HARNESS", "second box for one object")
    IN [m1 EXCEPT !.objs[o].bs = "live", !.objs[o].vs = IF @ = "pending" THEN "live" ELSE @,
                  !.objs[o].blk = e.blk, !.objs[o].size = e.size, !.objs[o].align = e.align,
                  !.bytes = @ + e.size,
                  !.blocks = (e.blk :> [o |-> o, k |-> "box", size |-> e.size, align |-> e.align]) @@ @]
  ELSE
    LET m1 == Flag(m, m.objs[o].mlive, "C09", "second side record for one allocation")
    IN [m1 EXCEPT !.objs[o].mblk = e.blk, !.objs[o].mlive = TRUE,
                  !.blocks = (e.blk :> [o |-> o, k |-> "meta", size |-> e.size, align |-> e.align]) @@ @]

OnDealloc(m, e) ==
  IF e.blk \notin DOMAIN m.blocks THEN Flag(m, TRUE, "C03", "release of an allocation that is not live (double free)") ELSE
  LET b == m.blocks[e.blk]
      o == b.o
      ob == m.objs[o]
      m0 == Flag(m, ~Get(e, "live", TRUE), "C03", "allocation released twice: object " \o ToString(o))
      m1a == Flag(m0, e.size # b.size \/ e.align # b.align, "C03", "allocation of object " \o ToString(o) \o " released with a layout different from the one it was allocated with")
      m1 == Flag(m1a, (e.size # b.size \/ e.align # b.align) /\ Depth(m) > 0 /\ Top(m).k = "op" /\ Top(m).op = "unwrap", "C13", "try_unwrap released the allocation of object " \o ToString(o) \o " with a wrong layout")
      rest == [x \in DOMAIN m.blocks \ {e.blk} |-> m.blocks[x]]
  IN
  IF b.k = "box" THEN
    LET unwrapping == Depth(m) > 0 /\ Top(m).k = "op" /\ Top(m).op = "unwrap" /\ Top(m).o = o
        m2 == Flag(m1, o \in Reach(m) /\ ob.vs = "live", "C01", "allocation of reachable object " \o ToString(o) \o " released")
        m3 == Flag(m2, ~(ob.vs \in {"dropped", "uninit"} \/ ob.ismap \/ (ob.vs = "live" /\ unwrapping)), IF ob.cyc /\ ob.vs = "live" THEN "C14" ELSE "C03", "allocation of object " \o ToString(o) \o " released while its value is " \o ob.vs)
        m4a == Flag(m3, ob.mlive /\ WCntObs(m, o) = 0 /\ ~m.faulted, "C09", "side record of object " \o ToString(o) \o " not released with the allocation although no Weak exists")
        m4 == Flag(m4a, OwnCbOpen(m, o), "C01", "allocation of object " \o ToString(o) \o " released while one of its own callbacks is still running")
    IN [m4 EXCEPT !.objs[o].bs = "freed", !.objs[o].vs = IF ob.ismap THEN "dropped" ELSE @, !.bytes = @ - b.size, !.blocks = rest]
  ELSE
    LET m2 == Flag(m1, WCntObs(m, o) > 0 /\ ~(ob.winfl = 1 /\ WCnt(m, o) = 0 /\ ob.bs = "freed"), "C09", "side record of object " \o ToString(o) \o " released while Weak pointers exist")
        unwrapping == Depth(m) > 0 /\ Top(m).k = "op" /\ Top(m).op = "unwrap" /\ Top(m).o = o
        m3 == Flag(m2, ob.bs = "live" /\ ob.vs = "live" /\ ~unwrapping /\ ~ob.ismap, "C09", "side record of object " \o ToString(o) \o " released while the value is alive")
    IN [m3 EXCEPT !.objs[o].mlive = FALSE, !.objs[o].mblk = 0, !.blocks = rest]

\* ------------------------------------------------------------------ the fold
EndRun(m) == [m EXCEPT !.log = IF DOMAIN m.viol = {} THEN @ ELSE Append(@, [run |-> m.cfg.run, viol |-> m.viol])]

Mon0(m, e) ==
  CASE e.e = "reset" -> [MonInit EXCEPT !.acfg.auto = Get(e, "auto", FALSE), !.cfg = [fin |-> e.fin, weak |-> e.weak, dbg |-> Get(e, "dbg", TRUE), auto |-> Get(e, "auto", FALSE), clean |-> Get(e, "clean", FALSE),
                                                  ns |-> e.ns, np |-> e.np, nw |-> e.nw, run |-> Get(e, "run", 0)],
                                 !.log = EndRun(m).log, !.n = m.n]
    [] e.e = "call" -> OnCall(m, e)
    [] e.e = "ret" -> OnRet(m, e)
    [] e.e = "cb" -> OnCb(MarkHost(m, e), e)
    [] e.e = "cbx" -> OnCbx(m, e)
    [] e.e = "alloc" -> OnAlloc(m, e)
    [] e.e = "dealloc" -> OnDealloc(m, e)
    [] e.e = "harness-thread-panicked" -> Flag(m, TRUE, "C19", "a thread panicked while running or tearing down its thread-locals")
    [] e.e = "probe" /\ Get(e, "what", "") = "teardown-alloc" -> Flag(m, ~e.ok, "C19", "an object created while the thread-locals are being destroyed does not hold its value")
    [] e.e = "harness-invalid-step" -> Flag(m, TRUE, "HARNESS", "a scripted thread step was not executable")
    [] OTHER -> m

Mon(m, e) ==
  LET m1 == Mon0([m EXCEPT !.n = @ + 1], e)
  IN IF e.e = "reset" THEN m1
     ELSE LET unre == {o \in Ids(m1) : m1.objs[o].vs = "live"} \ Reach(m1)
          IN [m1 EXCEPT !.seen = @ \cup unre]

RECURSIVE MonSeq(_, _, _)
MonSeq(m, es, i) == IF i > Len(es) THEN m ELSE MonSeq(Mon(m, es[i]), es, i + 1)
=============================================================================
