SPECIFICATION Spec
INVARIANT Report
POSTCONDITION Accepted
CHECK_DEADLOCK FALSE
