#!/usr/bin/env python3
"""Turns the shape / definition rows enumerated by TLC from spec/Shapes.tla into Rust code
(gen/shapes/src/cases.rs): one type with probe leaves per row, and the checks that compare the
real per-leaf trace / finalize counts and cycle reclamation with the expectation of the spec."""
import json
import sys


class Gen:
    def __init__(self, holder):
        self.holder = holder
        self.n = 0
        self.paths = []      # expression (given `v: &T`) evaluating to &P<H> per leaf
        self.borrows = []    # (expression evaluating to &RefCell<..>, method) that must be borrowed (borrow_mut / borrow) while collecting

    def ty(self, s):
        k, c = s['k'], s['c']
        H = self.holder
        if k == 'leaf':
            return 'P<%s>' % H
        if k == 'tup':
            return '(' + ''.join(self.ty(x) + ', ' for x in c) + ')'
        if k == 'arr':
            return '[%s; %d]' % (self.ty(c[0]) if c else 'P<%s>' % H, s['n'])
        if k == 'vec':
            return 'Vec<%s>' % (self.ty(c[0]) if c else 'P<%s>' % H)
        if k == 'slice':
            return 'Box<[%s]>' % (self.ty(c[0]) if c else 'P<%s>' % H)
        if k == 'box':
            return 'Box<%s>' % self.ty(c[0])
        if k == 'md':
            return 'std::mem::ManuallyDrop<%s>' % self.ty(c[0])
        if k == 'aus':
            return 'std::panic::AssertUnwindSafe<%s>' % self.ty(c[0])
        if k in ('some', 'none'):
            return 'Option<%s>' % self.ty(c[0])
        if k == 'ok':
            return 'Result<%s, u32>' % self.ty(c[0])
        if k == 'err':
            return 'Result<u32, %s>' % self.ty(c[0])
        if k in ('cell', 'cellb', 'cells'):
            return 'RefCell<%s>' % self.ty(c[0])
        if k == 'weak':
            return 'rust_cc::weak::Weak<Anchor>'
        if k == 'cleaner':
            return 'rust_cc::cleaners::Cleaner'
        if k == 'cleanable':
            return 'rust_cc::cleaners::Cleanable'
        if k == 'phantom':
            return 'std::marker::PhantomData<Cc<Anchor>>'
        if k == 'prim':
            return 'u64'
        raise ValueError(k)

    def ctor(self, s, path):
        """constructor expression; records leaf paths (path = expression for a reference to this value)"""
        k, c = s['k'], s['c']
        if k == 'leaf':
            i = self.n
            self.n += 1
            self.paths.append(path)
            return 'p(%d)' % i
        if k == 'tup':
            return '(' + ''.join(self.ctor(x, '&(%s).%d' % (path, i)) + ', ' for i, x in enumerate(c)) + ')'
        if k == 'arr':
            return '[' + ', '.join(self.ctor(x, '&(%s)[%d]' % (path, i)) for i, x in enumerate(c)) + ']'
        if k == 'vec':
            return 'vec![' + ', '.join(self.ctor(x, '&(%s)[%d]' % (path, i)) for i, x in enumerate(c)) + ']'
        if k == 'slice':
            return 'vec![' + ', '.join(self.ctor(x, '&(%s)[%d]' % (path, i)) for i, x in enumerate(c)) + '].into_boxed_slice()'
        if k == 'box':
            return 'Box::new(%s)' % self.ctor(c[0], '&**(%s)' % path)
        if k == 'md':
            return 'std::mem::ManuallyDrop::new(%s)' % self.ctor(c[0], '&**(%s)' % path)
        if k == 'aus':
            return 'std::panic::AssertUnwindSafe(%s)' % self.ctor(c[0], '&(%s).0' % path)
        if k == 'some':
            return 'Some(%s)' % self.ctor(c[0], '(%s).as_ref().unwrap()' % path)
        if k == 'none':
            return 'None'
        if k == 'ok':
            return 'Ok(%s)' % self.ctor(c[0], '(%s).as_ref().ok().unwrap()' % path)
        if k == 'err':
            return 'Err(%s)' % self.ctor(c[0], '(%s).as_ref().err().unwrap()' % path)
        if k in ('cell', 'cellb', 'cells'):
            if k == 'cellb':
                self.borrows.append((path, 'borrow_mut'))
            if k == 'cells':
                self.borrows.append((path, 'borrow'))
            return 'RefCell::new(%s)' % self.ctor(c[0], 'unsafe { &*(%s).as_ptr() }' % path)
        if k == 'weak':
            return 'rust_cc::weak::Weak::new()'
        if k == 'cleaner':
            return 'rust_cc::cleaners::Cleaner::new()'
        if k == 'cleanable':
            return 'rust_cc::cleaners::Cleaner::new().register(|| {})'
        if k == 'phantom':
            return 'std::marker::PhantomData'
        if k == 'prim':
            return '7u64'
        raise ValueError(k)


def shape_name(s):
    k, c = s['k'], s['c']
    if k == 'leaf':
        return 'L'
    if k in ('tup',):
        return 'T(' + ','.join(shape_name(x) for x in c) + ')'
    if k in ('arr', 'vec', 'slice'):
        return '%s%d(%s)' % (k, s['n'], shape_name(c[0]) if c else 'L')
    if c:
        return '%s(%s)' % (k, shape_name(c[0]))
    return k


def gen_shape_case(idx, row):
    H = 'C%d' % idx
    g = Gen(H)
    shape = row['shape']
    ty = g.ty(shape)
    ctor = g.ctor(shape, '&self_.v')
    vis = row['visits']
    assert len(vis) == g.n, (shape, vis, g.n)
    name = shape_name(shape).replace('"', '')
    has_borrowed = bool(g.borrows)
    out = []
    out.append('pub struct %s { v: %s }' % (H, ty))
    out.append('unsafe impl Trace for %s { fn trace(&self, ctx: &mut Context<\'_>) { count_holder(); self.v.trace(ctx); } }' % H)
    out.append('impl Finalize for %s { fn finalize(&self) { self.v.finalize(); } }' % H)
    out.append('impl Drop for %s { fn drop(&mut self) { count_drop(); } }' % H)
    out.append('impl %s {' % H)
    out.append('    fn build() -> %s { %s { v: %s } }' % (H, H, ctor))
    out.append('    fn probes(&self) -> Vec<&P<%s>> { let self_ = self; vec![%s] }' % (H, ', '.join(g.paths)))
    out.append('}')
    # the guards are leaked (safe): the cell stays borrowed for the rest of its life, also while the value is finalized and dropped
    borrows = ''.join('std::mem::forget((%s).%s()); ' % (b.replace('self_', 'hr'), meth) for i, (b, meth) in enumerate(g.borrows))
    t = [bool(v['t']) for v in vis]
    f = [bool(v['f']) for v in vis]
    out.append('fn case_%d(rep: &mut Report) {' % idx)
    out.append('    rep.cases += 1; let name = "%s"; let traced: [bool; %d] = %s; let fin: [bool; %d] = %s;' % (name, g.n, json.dumps(t), g.n, json.dumps(f)))
    out.append('    let _ = (&traced, &fin);')
    # (1) per-leaf trace counts
    out.append('    { reset(%d); let h = Cc::new(%s::build()); buffer(&h);' % (g.n, H))
    out.append('      { let hr: &%s = unsafe { &*(&*h as *const %s) }; let _ = hr; %scollect_cycles(); }' % (H, H, borrows))
    out.append('      let calls = holder_calls(); rep.check(calls > 0, || format!("{}: holder never traced", name));')
    out.append('      for i in 0..%d { let exp = if traced[i] { calls } else { 0 }; rep.check(tr(i) == exp, || format!("{}: leaf {} traced {} times in {} trace calls, expected {}", name, i, tr(i), calls, exp)); }' % g.n)
    out.append('      reset(%d); drop(h); rep.check(drops() == 1, || format!("{}: value not dropped by the last owner", name));' % g.n)
    out.append('      for i in 0..%d { let exp = if fin[i] { 1 } else { 0 }; rep.check(fi(i) == exp, || format!("{}: finalize forwarded {} times to leaf {}, expected {}", name, fi(i), i, exp)); }' % g.n)
    out.append('    }')
    # (2) a cycle through every leaf position
    out.append('    for k in 0..%d {' % g.n)
    out.append('      let base_bytes = rust_cc::state::allocated_bytes().unwrap();')
    out.append('      reset(%d); let h = Cc::new(%s::build());' % (g.n, H))
    out.append('      { let pr = h.probes(); *pr[k].link.borrow_mut() = Some(h.clone()); }')
    out.append('      buffer(&h);')
    out.append('      let hr: &%s = unsafe { &*(&*h as *const %s) }; let _ = hr;' % (H, H))
    out.append('      { %scollect_cycles(); }' % borrows)
    out.append('      rep.check(drops() == 0, || format!("{}: value reclaimed while still held (cycle through leaf {})", name, k));')
    out.append('      rep.check(drops() == 0, || format!("[C01] {}: a value held by the program was reclaimed (cycle through leaf {})", name, k));')
    out.append('      drop(h);')
    out.append('      { collect_cycles(); collect_cycles(); }')
    out.append('      let exp = if traced[k] { 1 } else { 0 };')
    out.append('      rep.check(drops() == exp, || format!("{}: cycle through leaf {} reclaimed {} times, expected {}", name, k, drops(), exp));')
    out.append('      if traced[k] { rep.check(drops() >= 1, || format!("[C02] {}: the unreachable cycle through leaf {} (a traced position) was not reclaimed", name, k)); }')
    out.append('      if traced[k] { let now = rust_cc::state::allocated_bytes().unwrap(); rep.check(now == base_bytes, || format!("[C03] {}: the value reclaimed through leaf {} was dropped but its allocation was not released ({} bytes still allocated)", name, k, now - base_bytes)); }')
    out.append('    }')
    out.append('}')
    return '\n'.join(out)


def gen_derive_case(idx, row):
    d = row['d']
    vis = [bool(x) for x in row['visits']]
    D = 'D%d' % idx
    generic = d['generic']
    out = []
    nid = [0]
    ctor_active = None

    def fields(fl, active):
        """returns (declaration body, constructor body) for one field list; allocates probe ids when active"""
        kind, ign = fl['kind'], fl['ign']
        if kind == 'unit':
            return '', ''
        decls, ctors = [], []
        for i, ig in enumerate(ign):
            fty = 'T' if (generic and i == 0) else 'P<Anchor>'
            # other attributes before / after the ignore marker must not change its meaning
            deco = [('', ''), ('', '#[allow(dead_code)] '), ('/// doc before\n', '/// doc after\n'), ('#[allow(dead_code)] ', '')][(i + idx) % 4]
            attr = (deco[0] + '#[rust_cc(ignore)] ' + deco[1]) if ig else ('#[allow(dead_code)] ' if (i + idx) % 3 == 0 else '')
            if active:
                pid = nid[0]
                nid[0] += 1
                val = 'p(%d)' % pid
            else:
                val = 'p(0)'
            if kind == 'named':
                decls.append('%sf%d: %s' % (attr, i, fty))
                ctors.append('f%d: %s' % (i, val))
            else:
                decls.append('%s%s' % (attr, fty))
                ctors.append(val)
        if kind == 'named':
            return ' { ' + ', '.join(decls) + ' }', ' { ' + ', '.join(ctors) + ' }'
        return '(' + ', '.join(decls) + ')', '(' + ', '.join(ctors) + ')'

    gparams = '<T: Trace + \'static>' if generic else ''
    gargs = '<P<Anchor>>' if generic else ''
    if d['def'] == 'struct':
        v = d['variants'][0]
        decl, ctor = fields(v['fl'], True)
        semi = ';' if v['fl']['kind'] != 'named' else ''
        out.append('#[derive(Trace, Finalize)]\npub struct %s%s%s%s' % (D, gparams, decl, semi))
        ctor_active = '%s%s' % (D, ctor)
    else:
        vs = []
        for j, v in enumerate(d['variants']):
            act = (j + 1 == d['active'])
            decl, ctor = fields(v['fl'], act)
            attr = ('#[rust_cc(ignore)] ' + ('#[allow(dead_code)] ' if (j + idx) % 2 else '')) if v['ignv'] else ('#[allow(dead_code)] ' if (j + idx) % 2 else '')
            vs.append('    %sV%d%s,' % (attr, j, decl))
            if act:
                ctor_active = '%s::V%d%s' % (D, j, ctor)
        out.append('#[derive(Trace, Finalize)]\npub enum %s%s {\n%s\n}' % (D, gparams, '\n'.join(vs)))
    n = nid[0]
    assert n == len(vis), (d, vis, n)
    W = 'W%d' % idx
    out.append('pub struct %s(%s%s);' % (W, D, gargs))
    out.append('unsafe impl Trace for %s { fn trace(&self, ctx: &mut Context<\'_>) { count_holder(); self.0.trace(ctx); } }' % W)
    out.append('impl Finalize for %s { fn finalize(&self) { self.0.finalize(); } }' % W)
    out.append('fn derive_%d(rep: &mut Report) {' % idx)
    out.append('    rep.cases += 1; let name = %s; let traced: [bool; %d] = %s; let _ = &traced;' % (json.dumps(json.dumps(d, sort_keys=True)), n, json.dumps(vis)))
    out.append('    reset(%d); let h = Cc::new(%s(%s)); buffer(&h); collect_cycles();' % (max(n, 1), W, ctor_active))
    out.append('    let calls = holder_calls(); rep.check(calls > 0, || format!("{}: holder never traced", name));')
    out.append('    for i in 0..%d { let exp = if traced[i] { calls } else { 0 }; rep.check(tr(i) == exp, || format!("{}: field {} traced {} times in {} trace calls, expected {}", name, i, tr(i), calls, exp)); }' % n)
    out.append('    reset(%d); drop(h);' % max(n, 1))
    out.append('    for i in 0..%d { rep.check(fi(i) == 0, || format!("{}: derived Finalize is not empty (field {})", name, i)); }' % n)
    out.append('}')
    return '\n'.join(out)


def main(sh_path, df_path, out_path):
    shapes = json.load(open(sh_path))
    defs = json.load(open(df_path))
    shapes.sort(key=lambda r: json.dumps(r, sort_keys=True))
    defs.sort(key=lambda r: json.dumps(r, sort_keys=True))
    parts = ['// generated by lib/gen_shapes.py from the rows enumerated by TLC (spec/Shapes.tla) - do not edit',
             'use rust_cc::*;', 'use std::cell::RefCell;', 'use crate::support::*;', '']
    for i, r in enumerate(shapes):
        parts.append(gen_shape_case(i, r))
    parts.append('pub fn run_shapes(rep: &mut Report) {')
    for i in range(len(shapes)):
        parts.append('    case_%d(rep);' % i)
    parts.append('}')
    for i, r in enumerate(defs):
        parts.append(gen_derive_case(i, r))
    parts.append('pub fn run_derives(rep: &mut Report) {')
    for i in range(len(defs)):
        parts.append('    derive_%d(rep);' % i)
    parts.append('}')
    open(out_path, 'w').write('\n'.join(parts) + '\n')
    return len(shapes), len(defs)


if __name__ == '__main__':
    print(main(*sys.argv[1:4]))
