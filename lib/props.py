"""Per-property plans (which engines / conformance stages decide a property) and evidence."""
import json
import os

VERIF = os.path.abspath(os.path.join(os.path.dirname(os.path.abspath(__file__)), '..'))

# --------------------------------------------------------------------------- TLC engines
CORE_OPS = {"new", "clone", "clonef", "drop", "set", "clear", "mark", "collect", "unwrap", "fagain", "put", "take"}
BASE = dict(N=3, NS=2, NP=0, NW=0, FIN=True, WEAK=True, DBG=True, MAXRC=16382, MAXWC=32767, MaxRoots=2, MaxWRoots=0,
            MaxOps=6, MaxFaults=0, MaxTraceK=0, BUG_STALE_TC=False, BUG_NESTED_FLAGS=False, OPS=CORE_OPS,
            AUTOF=True, AUTO0=False, SZ=160, CLEAN=False, MaxActs=0, BUG_CLEAN_REENTRANT=False, BUG_NESTED_DROP_FLAG=False, RECORD=True)


def _eng(name, quick, thorough, builds, **kw):
    q = dict(BASE); q.update(quick)
    t = dict(BASE); t.update(quick); t.update(thorough)
    e = {'module': 'CcImpl.tla', 'cfg': {'quick': 'MC_%s_quick.cfg' % name, 'thorough': 'MC_%s_thorough.cfg' % name},
         'consts': {'quick': q, 'thorough': t}, 'builds': builds}
    e.update(kw)
    return e


ENGINES = {
    # liveness: a collection always ends (PROPERTY CollectionEnds under weak fairness), pass loop bounded (hand-written cfg)
    'live': {'module': 'CcImpl.tla', 'cfg': {'quick': 'MC_live.cfg', 'thorough': 'MC_live.cfg'}, 'consts': {}, 'static': True,
             'builds': {'quick': ['all-dev'], 'thorough': ['all-dev']}, 'emit': False, 'workers': 4},
    # all histories of the core API over 3 objects with 2 traced fields
    'core': _eng('core', dict(MaxOps=5), dict(MaxOps=7), {'quick': ['all-dev'], 'thorough': ['all-dev', 'all-rel']}),
    # an untraced (pinning) field next to a traced one
    'pin': _eng('pin', dict(NS=1, NP=1, MaxOps=5), dict(MaxOps=7), {'quick': ['all-dev'], 'thorough': ['all-dev', 'all-rel']}),
    # finalization disabled
    'nofin': _eng('nofin', dict(FIN=False, MaxOps=5, OPS=CORE_OPS - {"fagain"}), dict(MaxOps=7), {'quick': ['nofin-rel'], 'thorough': ['nofin-dev', 'nofin-rel']}),
    # one injected panic at every callback invocation (trace k-th, finalize, drop)
    'fault': _eng('fault', dict(MaxOps=5, MaxFaults=1, MaxTraceK=3, N=3), dict(MaxOps=7), {'quick': ['all-dev'], 'thorough': ['all-dev', 'all-rel']}),
    # weak pointers: downgrade / upgrade / Weak clone / Weak drop / weak fields, upgrades from finalizers and destructors
    'weak': _eng('weak', dict(N=2, NS=1, NW=1, MaxOps=6, MaxWRoots=2, OPS={"new", "clone", "drop", "set", "clear", "collect", "unwrap", "downgrade", "upgrade", "upgradef", "clonew", "dropw", "setw", "clearw", "put", "wnew"}),
                 dict(MaxOps=8), {'quick': ['all-dev'], 'thorough': ['all-dev', 'all-rel']}),
    'weaknofin': _eng('weaknofin', dict(N=2, NS=1, NW=1, FIN=False, MaxOps=6, MaxWRoots=2, MaxFaults=1, MaxTraceK=2, OPS={"new", "clone", "drop", "set", "collect", "unwrap", "downgrade", "upgrade", "upgradef", "dropw", "setw"}),
                 dict(MaxOps=7), {'quick': ['nofin-rel'], 'thorough': ['nofin-dev', 'nofin-rel']}),
    # automatic collections started by Cc::new, threshold feedback loop, configuration changes, panics in automatic collections
    'auto': _eng('auto', dict(N=3, NS=1, AUTO0=True, MaxOps=5, MaxFaults=1, MaxTraceK=2, OPS={"new", "clone", "drop", "set", "collect", "setcfg", "put"}),
                 dict(MaxOps=7), {'quick': ['all-dev'], 'thorough': ['all-dev', 'all-rel']}),
    # new_cyclic: closures that save / probe the Weak, allocate, collect, panic; automatic collection due at the call
    'cyc': _eng('cyc', dict(N=2, NS=1, NW=1, AUTO0=True, MaxOps=5, MaxFaults=1, MaxTraceK=1, MaxWRoots=2,
                            OPS={"newcyc", "new", "drop", "clone", "put", "collect", "upgrade", "dropw", "upgradef", "unwrap"}),
                dict(MaxOps=7), {'quick': ['all-dev'], 'thorough': ['all-dev', 'all-rel']}),
    # saturation of the strong / weak counters at their real limits (bulk operations), later life of the object
    # new_cyclic without finalization, replayed on a release build (debug_assert!-only code paths differ between profiles)
    'cycnofin': _eng('cycnofin', dict(N=2, NS=1, NW=1, FIN=False, AUTO0=True, MaxOps=5, MaxFaults=1, MaxTraceK=1, MaxWRoots=2,
                                      OPS={"newcyc", "new", "drop", "clone", "put", "collect", "upgrade", "dropw", "upgradef", "unwrap"}),
                     dict(MaxOps=6), {'quick': ['nofin-rel'], 'thorough': ['nofin-dev', 'nofin-rel']}),
    'sat': _eng('sat', dict(N=2, NS=1, NW=1, MaxOps=6, MaxWRoots=2, OPS={"new", "sat", "clone", "drop", "put", "collect", "downgrade", "upgrade", "dropw", "unwrap"}),
                dict(MaxOps=7), {'quick': ['all-dev'], 'thorough': ['all-dev', 'all-rel']}),
    # deep histories over two objects: finalizers that create / resurrect objects, sets mixing finalized and fresh objects
    'resur': _eng('resur', dict(N=2, NS=1, MaxOps=9, OPS={"new", "drop", "set", "clonef", "collect"}), dict(MaxOps=10, OPS={"new", "drop", "set", "clonef", "collect", "clear"}),
                  {'quick': ['all-dev'], 'thorough': ['all-dev', 'all-rel']}),
    # cleaners: register / clean / Cleanable drop / owner release by count and by the collector, actions that act
    'clean': _eng('clean', dict(N=2, NS=1, CLEAN=True, MaxActs=2, MaxOps=6, OPS={"new", "drop", "put", "collect", "register", "clean", "dropcl", "clone"}),
                  dict(MaxOps=7), {'quick': ['all-dev'], 'thorough': ['all-dev', 'all-rel']}),
    # registering actions while an automatic collection is due (Cc::new of the map runs user code, nested register on the same Cleaner)
    'cleanauto': _eng('cleanauto', dict(N=2, NS=1, CLEAN=True, AUTO0=True, MaxActs=2, MaxOps=7, OPS={"new", "drop", "set", "collect", "register", "clean"}),
                  dict(MaxOps=8), {'quick': ['all-dev'], 'thorough': ['all-dev', 'all-rel']}),
    'cleanfault': _eng('cleanfault', dict(N=2, NS=1, CLEAN=True, MaxActs=2, MaxOps=5, MaxFaults=1, MaxTraceK=1, OPS={"new", "drop", "put", "collect", "register", "clean", "dropcl"}),
                  dict(MaxOps=6), {'quick': ['all-dev'], 'thorough': ['all-dev', 'all-rel']}),
    # deeper fault histories over two objects (stale marks / counters left by an unwound collection and what later operations do with them)
    'fault2': _eng('fault2', dict(N=2, NS=1, MaxOps=7, MaxFaults=1, MaxTraceK=3, OPS={"new", "clone", "drop", "set", "collect"}), dict(MaxOps=9),
                   {'quick': ['all-dev'], 'thorough': ['all-dev', 'all-rel']}),
    # TLC simulation (random walks through the model, fixed seed) with every feature at once and bounds far beyond the exhaustive
    # engines: deep mixed histories (cleaning actions + automatic collections + weak pointers + new_cyclic + one fault), each one
    # replayed in lock-step; the monitor invariant is evaluated in every state of every walk
    'sim': _eng('sim', dict(N=3, NS=1, NP=1, NW=1, MaxRoots=2, MaxWRoots=2, MaxOps=14, MaxFaults=1, MaxTraceK=2, AUTO0=True, CLEAN=True, MaxActs=2,
                            OPS={"new", "newcyc", "wnew", "setcfg", "clone", "clonef", "drop", "set", "put", "take", "clear", "mark", "collect", "unwrap", "fagain",
                                 "downgrade", "upgrade", "upgradef", "clonew", "dropw", "setw", "clearw", "register", "clean", "dropcl"}),
                dict(MaxOps=20), {'quick': ['all-dev'], 'thorough': ['all-dev', 'all-rel']},
                simulate={'quick': 'num=40', 'thorough': 'num=1000'}, depth={'quick': 80, 'thorough': 120}, workers=4),
    # the same walks without finalization, replayed on the release build (no debug assertions)
    'simnofin': _eng('simnofin', dict(N=3, NS=1, NP=1, NW=1, FIN=False, DBG=False, MaxRoots=2, MaxWRoots=2, MaxOps=14, MaxFaults=1, MaxTraceK=2, AUTO0=True, CLEAN=True, MaxActs=2,
                            OPS={"new", "newcyc", "wnew", "setcfg", "clone", "clonef", "drop", "set", "put", "take", "clear", "mark", "collect", "unwrap",
                                 "downgrade", "upgrade", "upgradef", "clonew", "dropw", "setw", "clearw", "register", "clean", "dropcl"}),
                dict(MaxOps=20), {'quick': ['nofin-rel'], 'thorough': ['nofin-rel']},
                simulate={'quick': 'num=40', 'thorough': 'num=1000'}, depth={'quick': 80, 'thorough': 120}, workers=4),
    'faultnofin': _eng('faultnofin', dict(FIN=False, MaxOps=5, MaxFaults=1, MaxTraceK=3, OPS=CORE_OPS - {"fagain"}), dict(MaxOps=7), {'quick': ['nofin-rel'], 'thorough': ['nofin-dev', 'nofin-rel']}),
}


def _random(variant, seed, runs, ops, family='g', **kw):
    p = {'seed': seed, 'runs': runs, 'ops': ops}
    p.update(kw)
    return {'kind': 'random', 'variant': variant, 'params': p, 'family': family}


def _script(variant, file, family='g'):
    return {'kind': 'script', 'variant': variant, 'params': {'file': file}, 'family': family}


def _layout(variant):
    return {'kind': 'layout', 'variant': variant, 'params': {}, 'family': 'l'}


def _ptr(variant):
    return {'kind': 'ptr', 'variant': variant, 'params': {}, 'family': 'p'}


def graph_conformance(tier, seed):
    """Stages shared by the properties about the object graph (C01-C09, C11-C13)."""
    st = []
    builds = ['all-dev', 'nofin-rel'] if tier == 'quick' else ['all-dev', 'all-rel', 'nofin-dev', 'nofin-rel', 'default-dev', 'noauto-rel']
    scale = 1 if tier == 'quick' else 8
    for b in builds:
        st.append(_script(b, 'regress/core.ndjson'))
        st.append(_script(b, 'regress/clean.ndjson', family='c'))
        st.append(_layout(b))
        st.append(_ptr(b))
        st.append(_random(b, seed + 4000, 8 * scale, 500, faultp=0.005, ns=2, np=0, nw=1, maxobjs=8, clean=1, family='c'))
        st.append(_random(b, seed, 12 * scale, 500, faultp=0.0, ns=2, np=1, nw=1, maxobjs=8))
        st.append(_random(b, seed + 1000, 12 * scale, 500, faultp=0.02, ns=2, np=1, nw=1, maxobjs=8))
        st.append(_random(b, seed + 2000, 6 * scale, 400, faultp=0.0, ns=3, np=0, nw=0, maxobjs=14))
        st.append(_random(b, seed + 3000, 8 * scale, 500, faultp=0.01, ns=2, np=0, nw=1, maxobjs=8, auto=1, family='a'))
        # everything at once: cleaning actions that allocate while automatic collections are due, weak pointers, faults
        st.append(_random(b, seed + 6000, 8 * scale, 500, faultp=0.005, ns=2, np=1, nw=1, maxobjs=8, auto=1, clean=1, family='a'))
    return st


GRAPH_PROPS = ['C01', 'C02', 'C03', 'C04', 'C05', 'C06', 'C07', 'C08', 'C09', 'C11', 'C12', 'C10', 'C13', 'C14', 'C15', 'C16', 'C20']


def _check_engine_builds():
    # a behaviour can only be replayed on a build whose features match the modelled ones
    for name, e in ENGINES.items():
        if e.get('static'):
            continue
        for tier, consts in e['consts'].items():
            for b in e['builds'][tier]:
                assert b.split('-')[0] in ('all', 'nofin'), (name, b)
                assert consts['FIN'] == (b.split('-')[0] == 'all'), (name, tier, b)


_check_engine_builds()

GRAPH_ENGINES = ['resur', 'fault2', 'core', 'pin', 'nofin', 'fault', 'faultnofin', 'weak', 'weaknofin', 'auto', 'cyc', 'sat', 'clean', 'cleanfault', 'cleanauto', 'cycnofin', 'sim', 'simnofin']

# which engines decide which property (stage results are cached per tree, so properties share the work)
PROP_ENGINES = {
    'C01': ['resur', 'core', 'pin', 'nofin', 'fault', 'faultnofin', 'weak', 'cycnofin', 'sim', 'simnofin'],
    'C02': ['resur', 'core', 'pin', 'nofin', 'weak', 'sim', 'simnofin'],
    'C03': ['core', 'nofin', 'fault', 'weak', 'cyc', 'sim', 'simnofin'],
    'C04': ['core', 'pin', 'fault', 'weak', 'sat', 'cycnofin', 'sim'],
    'C05': ['resur', 'core', 'nofin', 'fault', 'weak', 'sim'],
    'C06': ['live', 'resur', 'core', 'weak', 'sim'],
    'C07': ['fault', 'fault2', 'faultnofin', 'weaknofin', 'cleanfault', 'auto', 'cyc', 'sim'],
    'C08': ['weak', 'weaknofin', 'clean', 'sim', 'simnofin'],
    'C09': ['weak', 'weaknofin', 'cyc', 'sat', 'sim', 'simnofin'],
    'C10': ['clean', 'cleanfault', 'cleanauto', 'sim'],
    'C11': ['core', 'auto', 'weak', 'cyc', 'sim'],
    'C12': ['core', 'fault', 'clean', 'auto', 'sim'],
    'C13': ['core', 'weak', 'cyc'],
    'C14': ['cyc', 'cycnofin', 'auto', 'sim'],
    'C15': ['auto'],
    'C16': ['sat'],
    'C20': ['core'],
}
# random / scripted stage families per property: g = graph, a = auto, c = cleaners, l = layout, p = pointer tables
PROP_FAMILIES = {
    'C01': 'gacl', 'C02': 'gac', 'C03': 'gacl', 'C04': 'gac', 'C05': 'gac', 'C06': 'g', 'C07': 'gac', 'C08': 'gc', 'C09': 'gl',
    'C10': 'c', 'C11': 'gac', 'C12': 'gac', 'C13': 'gl', 'C14': 'a', 'C15': 'a', 'C16': 'g', 'C20': 'glp',
}


def plan(pid, tier, seed):
    if pid in ('C17', 'C18'):
        return {'engines': [], 'conformance': [{'kind': 'shapes', 'variant': 'shapes', 'params': {}, 'family': 's'}]}
    if pid == 'C19':
        builds = ['all-dev', 'nofin-rel'] if tier == 'quick' else ['all-dev', 'all-rel', 'nofin-rel', 'default-dev']
        conf = []
        for b in builds:
            if tier == 'thorough' or b == 'all-dev':
                conf.append({'kind': 'threads', 'variant': b, 'params': {}, 'family': 't'})
            for par in ([4, 16] if tier == 'quick' else [2, 4, 8, 16]):
                conf.append(_random(b, seed + 5000 + par, par * (2 if tier == 'quick' else 6), 300, faultp=0.005, ns=2, np=0, nw=1, maxobjs=8, par=par, family='t'))
        return {'engines': [], 'conformance': conf}
    if pid in GRAPH_PROPS:
        engines = PROP_ENGINES[pid]
        if tier == 'thorough':
            engines = list(GRAPH_ENGINES) if pid in ('C01', 'C03', 'C07') else engines
        conf = []
        for en in engines:
            if ENGINES[en].get('emit', True) is False:
                continue
            for b in ENGINES[en]['builds'][tier]:
                conf.append({'kind': 'replay', 'variant': b, 'engine': en})
        only = os.environ.get('VERIF_ONLY_ENGINES')   # development aid: restrict the plan (never used by registered commands)
        if only:
            keep = only.split(',')
            return {'engines': [e for e in engines if e in keep], 'conformance': [c for c in conf if c['engine'] in keep]}
        fam = PROP_FAMILIES[pid]
        rest = [c for c in graph_conformance(tier, seed) if c['family'] in fam]
        if pid in ('C01', 'C02', 'C03'):
            rest.append({'kind': 'shapes', 'variant': 'shapes', 'params': {}, 'family': 's'})
        if pid == 'C16':
            for b in (['all-dev', 'nofin-rel'] if tier == 'quick' else ['all-dev', 'all-rel', 'nofin-rel', 'default-dev']):
                rest.append({'kind': 'satgraph', 'variant': b, 'params': {}, 'family': 'g'})
        if pid == 'C15':
            for b in (['all-dev', 'nofin-rel'] if tier == 'quick' else ['all-dev', 'all-rel', 'nofin-rel', 'default-dev']):
                rest.append({'kind': 'policy', 'variant': b, 'params': {}, 'family': 'a'})
        return {'engines': list(engines), 'conformance': conf + rest}
    raise SystemExit('no plan for property %s' % pid)


LEVEL = {p: 'model_checking' for p in GRAPH_PROPS + ['C19']}
LEVEL['C17'] = 'exploration'
LEVEL['C18'] = 'exploration'


def evidence(pid, tier, seed, plan_, engines, confs, nviol, nknown, wall):
    states = sum(e.get('states', 0) for e in engines) + sum(c.get('states', 0) for c in confs)
    transitions = sum(e.get('transitions', 0) for e in engines) + sum(c.get('transitions', 0) for c in confs)
    runs = sum(c.get('runs', 0) for c in confs)
    events = sum(c.get('events', 0) for c in confs)
    samples = []
    for c in confs[:2]:
        if c.get('sample'):
            samples.append({'stage': [c['kind'], c['variant']], 'first_events': c['sample'][:8]})
    for e in engines[:2]:
        samples.append({'engine': e['engine'], 'cfg': e['cfg'], 'states': e.get('states'), 'behaviours': e.get('behaviours')})
    cov = {
        'states': states, 'transitions': transitions,
        'traces_validated_against_impl': runs,
        'samples': samples or [{'note': 'no sample'}],
        'evaluations': runs,
        'distinct_nontrivial': sum((c.get('nontrivial') or 0) for c in confs),
        'rule': 'one evaluation = one recorded history of the real crate (random, scripted, replayed TLC behaviour, thread trace) validated event by event '
                'against spec/Contract.tla by TLC, or one generated shape / definition / table row checked against the specification; histories are distinct by '
                'construction (TLC behaviours are de-duplicated by content hash, random runs have distinct seeds); a history is non-trivial when at least one user '
                'callback (trace / finalize / drop / action / closure) ran in it, a generated row when it has at least one leaf',
        'events_validated': events,
        'engines': [{'name': e['engine'], 'cfg': e['cfg'], 'states': e.get('states'), 'transitions': e.get('transitions'), 'depth': e.get('depth'),
                     'behaviours': e.get('behaviours'), 'coverage_by_action': e.get('coverage_by_action')} for e in engines],
        'stages': [{'kind': c['kind'], 'variant': c['variant'], 'runs': c.get('runs'), 'events': c.get('events'),
                    'drifted': (c.get('harness') or {}).get('drifted'), 'cached': bool(c.get('_cached'))} for c in confs],
        'exhaustive': False,
        'known_findings_reported': nknown,
    }
    level = LEVEL.get(pid, 'model_checking')
    if level == 'model_checking' and states == 0:
        # no TLC state exploration contributed yet: fall back to the generic keys honestly
        cov.pop('states')
        cov.pop('transitions')
    return {
        'property_id': pid, 'tier': tier, 'seed': seed, 'level': level, 'coverage': cov,
        'assumptions': ['TLC evaluates spec/Contract.tla faithfully', 'the harness reports its own handles and stores truthfully',
                        'the tracking allocator sees every allocation of the crate (hook rust_cc_verif tags boxes and side records)'],
        'wall_s': round(wall, 2), 'violations': nviol,
    }


# --------------------------------------------------------------------------- manifest texts
_T = 'TLA+ contract monitor (spec/Contract.tla) evaluated by TLC over traces recorded from the real crate (random + scripted + replayed TLC behaviours)'
CLAIMED = {}
for _p in GRAPH_PROPS:
    CLAIMED[_p] = {
        'engine': 'tlc-spec+ccverif',
        'technique': 'TLA+ model checking (TLC) + trace validation / behaviour replay against the real crate',
        'text': 'Every history executed against the real crate (all listed builds) is validated event by event by TLC against the '
                'property clauses of spec/Contract.tla; the implementation-grain model spec/CcImpl.tla is explored exhaustively in small '
                'scope with the same monitor folded over its events, and its behaviours are replayed into the crate.',
        'design_ref': 'DESIGN.md section 8 ' + _p,
        'note': 'Trusted: TLC, the harness account of its own handles, the tracking allocator; bounds: small-scope exhaustive model, '
                'finite random histories (seeded by VERIF_SEED).',
    }
CLAIMED['C19'] = {
    'engine': 'tlc-spec+ccverif',
    'technique': 'TLA+ model checking of thread schedules (TLC) + replay on real threads + per-thread trace validation',
    'text': 'spec/Threads.tla enumerates every interleaving of small per-thread programs, both thread-local destruction orders and both exit '
            'kinds (invariant: a thread\'s counters depend on its own prefix only); real threads replay each schedule with a baton and free-running '
            'threads (2..16) run random programs concurrently; every thread\'s trace, teardown included, is validated against spec/Contract.tla with exact counters.',
    'design_ref': 'DESIGN.md section 8 C19',
    'note': 'Cc is !Send, so no legal program shares objects between threads: independence is structural in the specification and the assurance '
            'comes from the conformance runs. Trusted: TLC, harness, tracking allocator.',
}
for _p, _what in (('C17', 'the built-in Trace / Finalize impls of containers'), ('C18', 'derive(Trace) / derive(Finalize), including the Drop-conflict rule (compile probes)')):
    CLAIMED[_p] = {
        'engine': 'tlc-spec+generated-cases',
        'technique': 'TLA+ specification of the visit function (TLC enumerates the cases) + generated conformance tests against the real impls',
        'text': 'spec/Shapes.tla defines, for every container shape / type definition in the enumerated grammar, which leaves one trace (finalize) call must '
                'visit; TLC enumerates the rows, a generator turns each into a Rust type with probe leaves, and the real per-leaf counts, the reclamation of '
                'a cycle routed through every leaf position and the never-early rule are compared with the specification: ' + _what + '.',
        'design_ref': 'DESIGN.md section 8 ' + _p,
        'note': 'Exhaustive over the generated grammar (tuples 1..12, arrays 0..32, Vec, slices, Box, Option, Result, RefCell borrowed / not, ManuallyDrop, '
                'AssertUnwindSafe, two-level nestings; struct / enum definitions with ignore masks); this is a per-type property, the specification contributes the '
                'expected-visit function, not a state space.',
    }
NOT_APPLICABLE = {}
