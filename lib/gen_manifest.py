#!/usr/bin/env python3
"""Writes MANIFEST.json from the property plans (single source of truth: lib/props.py)."""
import json, os, subprocess, sys
sys.path.insert(0, os.path.dirname(os.path.abspath(__file__)))
import props as P
VERIF = P.VERIF
ids = [json.loads(l)['id'] for l in open(os.path.join(VERIF, 'properties.jsonl'))]
hooks = subprocess.run(['git', '-C', '/repo', 'log', '--format=%H %s'], capture_output=True, text=True).stdout.splitlines()
hook_commits = [l.split()[0] for l in hooks if 'verification hooks' in l or 'rust_cc_verif' in l]
checks, na = [], []
for pid in ids:
    if pid in P.CLAIMED:
        c = P.CLAIMED[pid]
        checks.append({
            'property_id': pid,
            'quick_cmd': 'bin/check %s --tier quick' % pid,
            'thorough_cmd': 'bin/check %s --tier thorough' % pid,
            'evidence_file': 'evidence/%s.json' % pid,
            'replay_cmd_template': 'bin/check --replay {path}',
            'engine': c['engine'],
            'level_claimed': {'category': P.LEVEL.get(pid, 'model_checking'), 'text': c['text'], 'design_ref': c['design_ref']},
            'level_note': c['note'],
            'technique': c['technique'],
        })
    else:
        na.append({'property_id': pid, 'reason': P.NOT_APPLICABLE.get(pid, 'not covered yet by the TLA+ specification and its conformance harness (work in progress)')})
m = {
    'version': 1,
    'setup_cmd': 'bin/setup',
    'hooks': {
        'guard': 'rust_cc_verif',
        'enable': 'RUSTFLAGS --cfg rust_cc_verif, set in harness/.cargo/config.toml (the harness crate has a path dependency on /repo)',
        'baseline_off_cmd': 'cd /repo && cargo test --workspace --no-fail-fast --offline',
        'source_commits': hook_commits,
        'add_only': True,
    },
    'engines': [
        {'name': 'tlc-spec', 'path': 'spec/', 'serves_properties': sorted(P.CLAIMED), 'kind_free_text': 'TLA+ specifications checked by TLC: Contract.tla (property monitor), CcImpl.tla (implementation-grain model, exhaustive and simulation configurations), TraceContract.tla (trace validation), and the table specifications Policy, PtrSpec, Shapes, Threads, SatGraph whose rows / schedules are replayed against the crate'},
        {'name': 'ccverif', 'path': 'harness/', 'serves_properties': sorted(P.CLAIMED), 'kind_free_text': 'Rust conformance harness: replays TLC behaviours into the real crate, drives random/scripted histories, records ndjson traces'},
    ],
    'checks': checks,
    'not_applicable': na,
    'notes': 'Verdicts about histories come only from spec/Contract.tla, evaluated by TLC on traces recorded from the real crate and on every state of the CcImpl model; verdicts of the table stages (policy grid, pointer tables, container / derive shapes, saturation table) come from comparing the real crate with rows printed by TLC from the table specifications. See DESIGN.md section 0.',
}
json.dump(m, open(os.path.join(VERIF, 'MANIFEST.json'), 'w'), indent=1)
print('MANIFEST.json:', len(checks), 'checks,', len(na), 'not claimed')
