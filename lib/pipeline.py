"""Verification pipeline for rust-cc: TLC engines, conformance harness, trace validation, evidence."""
import concurrent.futures as cf
import hashlib
import json
import os
import re
import shutil
import subprocess
import sys
import tempfile
import time

VERIF = os.path.abspath(os.path.join(os.path.dirname(os.path.abspath(__file__)), '..'))
REPO = os.environ.get('VERIF_REPO', '/repo')
SPEC = os.path.join(VERIF, 'spec')
HARNESS = os.path.join(VERIF, 'harness')
CACHE = os.path.join(VERIF, '.cache')
REPLAYS = os.path.join(VERIF, 'replays')
NCPU = os.cpu_count() or 4

sys.path.insert(0, os.path.dirname(os.path.abspath(__file__)))
import props as P  # noqa: E402


REPLAY_CAP = 60000   # thorough tier: behaviours replayed per (engine, build)


class ToolError(Exception):
    pass


def log(*a):
    print('[check]', *a, file=sys.stderr, flush=True)


# --------------------------------------------------------------------------- hashing / cache

def _hash_files(roots, skip_dirs=('target', '.git', '.cache', 'replays', 'evidence', 'states', 'work')):
    h = hashlib.sha256()
    for root in roots:
        if os.path.isfile(root):
            files = [root]
        else:
            files = []
            for d, dn, fn in os.walk(root):
                dn[:] = sorted(x for x in dn if x not in skip_dirs and not x.startswith('target'))
                for f in sorted(fn):
                    if f == 'cases.rs' and d.endswith(os.path.join('gen', 'shapes', 'src')):
                        continue   # generated at check time
                    files.append(os.path.join(d, f))
        for f in files:
            try:
                with open(f, 'rb') as fh:
                    h.update(f.encode())
                    h.update(b'\0')
                    h.update(fh.read())
            except OSError:
                pass
    return h.hexdigest()[:20]


_TREE = None


def tree_hash():
    global _TREE
    if _TREE is None:
        _TREE = _hash_files([os.path.join(REPO, 'src'), os.path.join(REPO, 'derive'), os.path.join(REPO, 'Cargo.toml'),
                             SPEC, os.path.join(HARNESS, 'src'), os.path.join(HARNESS, 'Cargo.toml'),
                             os.path.join(VERIF, 'lib'), os.path.join(VERIF, 'regress'), os.path.join(VERIF, 'gen')])
    return _TREE


_SPEC = None


def spec_hash():
    """TLC engine results depend on the specification and its configuration only (not on /repo): they are cached under the
    hash of spec/ so that a change of the code under test does not re-run TLC on an unchanged specification."""
    global _SPEC
    if _SPEC is None:
        _SPEC = 'spec-' + _hash_files([SPEC])
    return _SPEC


def stage_dir(key, scope='tree'):
    k = hashlib.sha256(json.dumps(key, sort_keys=True).encode()).hexdigest()[:16]
    d = os.path.join(CACHE, spec_hash() if scope == 'spec' else tree_hash(), k)
    return d


def stage(key, fn, scope='tree'):
    """Runs fn(dir) -> dict once per (tree, key); the result and its files are cached under .cache.
    A file lock makes concurrent checks wait for each other instead of computing a stage twice."""
    import fcntl
    d = stage_dir(key, scope)
    os.makedirs(os.path.dirname(d), exist_ok=True)
    res = os.path.join(d, 'result.json')
    with open(d + '.lock', 'w') as lk:
        fcntl.flock(lk, fcntl.LOCK_EX)
        if os.path.exists(res):
            with open(res) as fh:
                r = json.load(fh)
            r['_cached'] = True
            return r
        if os.path.exists(d):
            shutil.rmtree(d)
        os.makedirs(d)
        t0 = time.time()
        r = fn(d)
        r['_wall'] = round(time.time() - t0, 2)
        r['_dir'] = d
        with open(res + '.tmp', 'w') as fh:
            json.dump(r, fh)
        os.rename(res + '.tmp', res)
        return r


def prune_cache(keep=3):
    """Keeps the cache small: only the most recent tree hashes survive."""
    if not os.path.isdir(CACHE):
        return
    ds = [os.path.join(CACHE, x) for x in os.listdir(CACHE) if not x.startswith('spec-')]
    ds = [d for d in ds if os.path.isdir(d)]
    sp = sorted([os.path.join(CACHE, x) for x in os.listdir(CACHE) if x.startswith('spec-')], key=os.path.getmtime, reverse=True)
    for d in sp[2:]:
        if d != os.path.join(CACHE, spec_hash()):
            shutil.rmtree(d, ignore_errors=True)
    ds.sort(key=lambda d: os.path.getmtime(d), reverse=True)
    cur = os.path.join(CACHE, tree_hash())
    for d in ds[keep:]:
        if d != cur:
            shutil.rmtree(d, ignore_errors=True)


# --------------------------------------------------------------------------- harness builds

BUILDS = {
    # name: (features, profile)
    'all-dev': (['fin', 'weak', 'clean', 'auto'], 'dev'),
    'all-rel': (['fin', 'weak', 'clean', 'auto'], 'release'),
    'nofin-dev': (['weak', 'clean', 'auto'], 'dev'),
    'nofin-rel': (['weak', 'clean', 'auto'], 'release'),
    'default-dev': (['fin', 'auto'], 'dev'),
    'default-rel': (['fin', 'auto'], 'release'),
    'noauto-dev': (['fin', 'weak', 'clean'], 'dev'),
    'noauto-rel': (['fin', 'weak', 'clean'], 'release'),
}
_built = {}


def build(variant):
    if variant in _built:
        return _built[variant]
    feats, prof = BUILDS[variant]
    tdir = os.path.join(HARNESS, 'target', variant)
    cmd = ['cargo', 'build', '--offline', '--quiet', '--features', ','.join(feats), '--target-dir', tdir]
    if prof == 'release':
        cmd.append('--release')
    env = dict(os.environ, CARGO_NET_OFFLINE='true')
    r = subprocess.run(cmd, cwd=HARNESS, env=env, capture_output=True, text=True)
    if r.returncode != 0:
        raise ToolError('cargo build failed for %s:\n%s' % (variant, r.stderr[-4000:]))
    b = os.path.join(tdir, 'debug' if prof == 'dev' else 'release', 'ccverif')
    _built[variant] = b
    return b


def build_all(variants):
    with cf.ThreadPoolExecutor(max_workers=4) as ex:
        list(ex.map(build, variants))


def run_harness(variant, args, timeout=1500):
    b = build(variant)
    try:
        r = subprocess.run([b] + args, capture_output=True, text=True, timeout=timeout)
    except subprocess.TimeoutExpired:
        # the real code did not come back: reported as non-termination by C06, as a tool error by the other checks
        return {'crash': True, 'hang': True, 'returncode': None, 'stderr': 'timeout after %ds' % timeout, 'stdout': ''}
    if r.returncode != 0:
        return {'crash': True, 'returncode': r.returncode, 'stderr': r.stderr[-2000:], 'stdout': r.stdout[-2000:]}
    try:
        return json.loads(r.stdout.strip().splitlines()[-1])
    except Exception:
        raise ToolError('harness output not understood: %r' % r.stdout[-500:])


# --------------------------------------------------------------------------- TLC

def tlc(module, cfg, workdir, workers=None, extra=None, env=None, timeout=3600, simulate=None, heap='8g'):
    meta = tempfile.mkdtemp(prefix='tlcmeta', dir=workdir)
    cmd = ['tlc', '-workers', str(workers or NCPU), '-metadir', meta, '-cleanup', '-noGenerateSpecTE', '-config', cfg]
    if simulate:
        cmd += ['-simulate', simulate]
    cmd += (extra or []) + [module]
    e = dict(os.environ)
    jopts = '-Xss1g -Xmx%s' % heap
    e['JAVA_TOOL_OPTIONS'] = (jopts + ' ' + e.get('JAVA_TOOL_OPTIONS_EXTRA', '')).strip()
    if env:
        e.update(env)
    out = os.path.join(workdir, 'tlc.out') if module != 'TraceContract.tla' else meta + '.out'
    with open(out, 'w') as fh:
        try:
            r = subprocess.run(cmd, cwd=SPEC, env=e, stdout=fh, stderr=subprocess.STDOUT, timeout=timeout)
            rc = r.returncode
        except subprocess.TimeoutExpired:
            rc = -9
    shutil.rmtree(meta, ignore_errors=True)
    return rc, out


def decode_tlc_string(s):
    return json.loads('"' + s + '"') if False else s.encode('utf-8').decode('unicode_escape')


VERDICT_RE = re.compile(r'<<"VERDICT", "(.*)", "EVENTS", (\d+)>>')


def validate_file(path, workdir):
    """Runs TraceContract over one ndjson file. Returns (violations, events)."""
    rc, out = tlc('TraceContract.tla', 'TraceContract.cfg', workdir, workers=1, env={'TRACE': path}, heap='3g', timeout=3600)
    txt = open(out, errors='replace').read()
    os.unlink(out)
    m = VERDICT_RE.search(txt)
    if not m or 'UNCONSUMED' in txt:
        raise ToolError('trace validation failed for %s (rc=%s):\n%s' % (path, rc, txt[-3000:]))
    v = json.loads(m.group(1).encode('utf-8').decode('unicode_escape'))
    viols = []
    for r in v:
        for prop, d in r['viol'].items():
            viols.append({'run': r['run'], 'prop': prop, 'msg': d['msg'], 'n': d['n'], 'faulted': d['faulted'], 'resur': d['resur'], 'big': d.get('big', False), 'wup': d.get('wup', False)})
    return viols, int(m.group(2))


_last_nontrivial = 0


def split_runs(path, nshards, outdir, tag):
    """Splits an ndjson trace into shards at reset boundaries. Run ids are rewritten to be unique
    (position of the run in the file)."""
    shards = [open(os.path.join(outdir, '%s.shard%d.ndjson' % (tag, i)), 'w') for i in range(nshards)]
    sizes = [0] * nshards
    cur = None
    run = -1
    nruns = 0
    global _last_nontrivial
    _last_nontrivial = 0
    seen_cb = True
    with open(path) as fh:
        for line in fh:
            if not seen_cb and '"e":"cb"' in line:
                seen_cb = True
                _last_nontrivial += 1
            if line.startswith('{"') and '"e":"reset"' in line:
                seen_cb = False
                run += 1
                nruns += 1
                cur = sizes.index(min(sizes))
                ev = json.loads(line)
                ev['run'] = run
                line = json.dumps(ev, separators=(',', ':')) + '\n'
            if cur is None:
                continue
            shards[cur].write(line)
            sizes[cur] += 1
    for s in shards:
        s.close()
    files = [s.name for s, n in zip(shards, sizes) if n > 0]
    for s, n in zip(shards, sizes):
        if n == 0:
            os.unlink(s.name)
    return files, nruns


def validate_trace(path, workdir, tag, nshards=None):
    nshards = nshards or min(NCPU, max(1, os.path.getsize(path) // 400000))
    files, nruns = split_runs(path, nshards, workdir, tag)
    viols, events = [], 0
    with cf.ThreadPoolExecutor(max_workers=NCPU) as ex:
        for v, n in ex.map(lambda f: validate_file(f, workdir), files):
            viols += v
            events += n
    for f in files:
        os.unlink(f)
    validate_trace.nontrivial = _last_nontrivial
    return viols, events, nruns


def extract_run(path, run):
    """The events of the run-th run (0-based position) of an ndjson trace."""
    out, cur = [], -1
    with open(path) as fh:
        for line in fh:
            if '"e":"reset"' in line:
                cur += 1
                if cur > run:
                    break
            if cur == run:
                out.append(json.loads(line))
    return out


# --------------------------------------------------------------------------- conformance stages

def history_signature(events):
    """Compact, stable description of a run: the sequence of operation names with nesting."""
    out, depth = [], 0
    for e in events:
        k = e.get('e')
        if k == 'call':
            if e.get('op') not in ('glue', 'gluew'):
                out.append('(' * 0 + ('>' * depth) + e['op'])
            depth += 1
        elif k == 'ret':
            depth -= 1
        elif k == 'cb':
            depth += 1
        elif k == 'cbx':
            depth -= 1
            if e.get('panic'):
                out.append(('>' * depth) + '!' + e['cb'])
    return ','.join(out)


def conformance_stage(kind, variant, params):
    """kind: random | script | replay. Returns dict with violations (with extracted behaviours), counts."""
    key = ['conf', kind, variant, params]

    def run(d):
        trace = os.path.join(d, 'trace.ndjson')
        if kind == 'random':
            args = ['random', '--seed', str(params['seed']), '--runs', str(params['runs']), '--ops', str(params['ops']),
                    '--faultp', str(params.get('faultp', 0)), '--ns', str(params.get('ns', 2)), '--np', str(params.get('np', 1)),
                    '--par', str(params.get('par', 1)), '--nw', str(params.get('nw', 1)), '--maxobjs', str(params.get('maxobjs', 10)), '--auto', str(params.get('auto', 0)), '--clean', str(params.get('clean', 0)),
                    '--out', trace]
        elif kind == 'script':
            args = ['script', '--in', os.path.join(VERIF, params['file']), '--out', trace]
        elif kind == 'layout':
            args = ['layout', '--out', trace]
        else:
            args = []
        if kind == 'replay' and (params.get('n') or 0) == 0:
            raise ToolError('engine %s produced no behaviours to replay' % params.get('engine'))
        if kind == 'replay':
            # shard the behaviours over several harness processes
            # thorough tier: an engine may emit millions of behaviours; at most `cap` of them (every stride-th one, rotated by
            # the seed) are replayed per build, the number is recorded in the evidence
            n_all = params.get('n', 1)
            cap = params.get('cap') or n_all
            stride = max(1, -(-n_all // cap))
            n_sel = len(range((params.get('seed', 0)) % stride, n_all, stride))
            k = max(1, min(4, n_sel // 500))
            outs = [open(os.path.join(d, 'beh%d.ndjson' % i), 'w') for i in range(k)]
            with open(params['file']) as fh:
                j = 0
                for i, line in enumerate(fh):
                    if (i - params.get('seed', 0)) % stride:
                        continue
                    outs[j % k].write(line)
                    j += 1
            for o in outs:
                o.close()
            def one(i):
                return run_harness(variant, ['replay', '--in', outs[i].name, '--out', os.path.join(d, 'trace%d.ndjson' % i), '--report', os.path.join(d, 'report%d.json' % i),
                                             '--sample', str(params.get('sample', 1)), '--seed', str(params.get('seed', 0))])
            with cf.ThreadPoolExecutor(max_workers=k) as ex:
                reps = list(ex.map(one, range(k)))
            rep = {'mode': 'replay', 'behaviours': 0, 'drifted': 0, 'skipped': 0, 'events': 0, 'written': 0, 'drift_samples': []}
            for r in reps:
                if r.get('crash'):
                    rep = r
                    break
                for key in ('behaviours', 'drifted', 'skipped', 'events', 'written'):
                    rep[key] += r.get(key, 0)
                rep['drift_samples'] += r.get('drift_samples', [])[:3]
                rep['build'] = r.get('build')
            rep['emitted_by_engine'] = n_all
            rep['replay_stride'] = stride
            if not rep.get('crash') and (rep['skipped'] or not rep['behaviours']):
                raise ToolError('replay of engine %s on build %s skipped %d behaviours (feature mismatch between model and build)' % (params.get('engine'), variant, rep['skipped']))
            if not rep.get('crash'):
                with open(trace, 'w') as out:
                    for i in range(k):
                        with open(os.path.join(d, 'trace%d.ndjson' % i)) as fh:
                            shutil.copyfileobj(fh, out)
            for i in range(k):
                for f in (outs[i].name, os.path.join(d, 'trace%d.ndjson' % i)):
                    if os.path.exists(f):
                        os.unlink(f)
        else:
            rep = run_harness(variant, args)
        res = {'kind': kind, 'variant': variant, 'params': params, 'harness': rep, 'violations': [], 'events': 0, 'runs': 0}
        if rep.get('crash'):
            # A crash of the real code under the harness is itself a finding (memory safety / abort)
            res['crash'] = True
            return res
        viols, events, nruns = validate_trace(trace, d, 'v')
        res['events'], res['runs'] = events, nruns
        res['nontrivial'] = getattr(validate_trace, 'nontrivial', 0)
        for v in viols:
            beh = extract_run(trace, v['run'])
            v['behaviour'] = beh
            v['signature'] = history_signature(beh)
            v['variant'] = variant
            v['source'] = kind
            v['par'] = bool(params.get('par', 1) > 1) if isinstance(params, dict) else False
        # the context flags of a run are sticky: a violation that was flagged a few events before the flag was raised
        # in the same run belongs to the same context
        for fl in ('faulted', 'resur', 'big', 'wup'):
            runs_with = {v['run'] for v in viols if v.get(fl)}
            for v in viols:
                if v['run'] in runs_with:
                    v[fl] = True
        res['violations'] = viols
        # keep a small sample of the trace as evidence, drop the bulk
        with open(trace) as fh:
            import itertools
            sample = [json.loads(l) for l in itertools.islice(fh, 12)]
        res['sample'] = sample
        os.unlink(trace)
        return res

    return stage(key, run)


def threads_stage(variant, tier):
    """C19: TLC enumerates the schedules (spec/Threads.tla, invariant Independent), real threads replay them with a
    baton, every thread's trace is validated by the single-thread contract monitor."""
    key = ['threads', variant, tier]

    def run(d):
        rc, out = tlc('Threads.tla', 'Threads_%s.cfg' % tier, d, workers=4, heap='4g', timeout=1200)
        txt = open(out, errors='replace').read()
        if 'No error has been found' not in txt:
            raise ToolError('Threads.tla failed:\n' + txt[-2000:])
        m = re.search(r'(\d+) states generated, (\d+) distinct states found', txt)
        sched = os.path.join(d, 'schedules.ndjson')
        n = 0
        with open(sched, 'w') as fh:
            for line in txt.splitlines():
                if line.startswith('<<"TS", "'):
                    fh.write(line[len('<<"TS", "'):-3].encode('utf-8').decode('unicode_escape') + '\n')
                    n += 1
        with open(out, 'w') as fh:
            fh.write('\n'.join(l for l in txt.splitlines() if not l.startswith('<<"TS"'))[-20000:])
        trace = os.path.join(d, 'trace.ndjson')
        rep = run_harness(variant, ['threads', '--in', sched, '--out', trace])
        res = {'kind': 'threads', 'variant': variant, 'params': {'tier': tier}, 'harness': rep, 'violations': [], 'events': 0, 'runs': 0,
               'states': int(m.group(2)) if m else 0, 'transitions': int(m.group(1)) if m else 0, 'schedules': n}
        if rep.get('crash'):
            res['crash'] = True
            return res
        if rep.get('late_double_frees'):
            res['violations'].append({'run': 0, 'prop': 'C19', 'msg': 'an allocation was released twice during thread teardown', 'n': 0, 'faulted': False, 'resur': False,
                                      'behaviour': [], 'signature': 'teardown', 'variant': variant, 'source': 'threads'})
        viols, events, nruns = validate_trace(trace, d, 'v')
        res['events'], res['runs'] = events, nruns
        res['nontrivial'] = getattr(validate_trace, 'nontrivial', 0)
        for v in viols:
            v['behaviour'] = extract_run(trace, v['run'])
            v['signature'] = history_signature(v['behaviour'])
            v['variant'] = variant
            v['source'] = 'threads'
        res['violations'] += viols
        import itertools
        with open(sched) as fh:
            res['sample'] = [json.loads(l) for l in itertools.islice(fh, 3)]
        os.unlink(trace)
        return res

    return stage(key, run)


def _cargo(cwd, args, timeout=1800):
    env = dict(os.environ, CARGO_NET_OFFLINE='true')
    return subprocess.run(['cargo'] + args, cwd=cwd, env=env, capture_output=True, text=True, timeout=timeout)


def shapes_stage():
    """C17 / C18: TLC enumerates container shapes and derive definitions with their expected visit vectors
    (spec/Shapes.tla); a generator turns each row into a Rust type with probe leaves; the cases run against the
    real Trace / Finalize impls and derive macros; compile probes check the Drop-conflict rule of derive(Trace)."""
    key = ['shapes']

    def run(d):
        import gen_shapes
        rc, out = tlc('Shapes.tla', 'Shapes.cfg', d, workers=1, heap='4g', timeout=600)
        txt = open(out, errors='replace').read()
        if 'No error has been found' not in txt:
            raise ToolError('Shapes.tla failed:\n' + txt[-2000:])
        rows = {}
        for tag in ('SH', 'DF'):
            m = re.search(r'<<"%s", "(.*)">>' % tag, txt)
            if not m:
                raise ToolError('Shapes.tla printed no %s rows' % tag)
            rows[tag] = json.loads(m.group(1).encode('utf-8').decode('unicode_escape'))
            with open(os.path.join(d, tag + '.json'), 'w') as fh:
                json.dump(rows[tag], fh)
        os.unlink(out)
        crate = os.path.join(VERIF, 'gen', 'shapes')
        gen_shapes.main(os.path.join(d, 'SH.json'), os.path.join(d, 'DF.json'), os.path.join(crate, 'src', 'cases.rs'))
        res = {'kind': 'shapes', 'variant': 'default+weak+cleaners', 'params': {}, 'harness': {}, 'violations': [], 'events': 0, 'runs': 0,
               'states': 2, 'transitions': 2, 'shape_rows': len(rows['SH']), 'def_rows': len(rows['DF'])}
        b = _cargo(crate, ['build', '--offline', '--quiet'])
        if b.returncode != 0:
            # the generated cases only use the public API: not compiling is itself a finding about the impls / the derive
            res['violations'].append({'run': 0, 'prop': 'C17', 'msg': 'generated container / derive cases do not compile: ' + b.stderr[-600:], 'n': 0, 'faulted': False, 'resur': False,
                                      'behaviour': [], 'signature': 'shapes-build', 'variant': 'shapes', 'source': 'shapes'})
            res['violations'].append(dict(res['violations'][0], prop='C18'))
            return res
        exe = os.path.join(crate, 'target', 'debug', 'ccshapes')
        for mode, prop in (('shapes', 'C17'), ('derives', 'C18')):
            r = subprocess.run([exe, mode], capture_output=True, text=True, timeout=600)
            if r.returncode != 0:
                res['violations'].append({'run': 0, 'prop': prop, 'msg': 'the %s cases crashed (rc %s): %s' % (mode, r.returncode, r.stderr[-300:]), 'n': 0, 'faulted': False, 'resur': False,
                                          'behaviour': [], 'signature': mode + '-crash', 'variant': 'shapes', 'source': 'shapes'})
                continue
            rep = json.loads(r.stdout.strip().splitlines()[-1])
            res['harness'][mode] = {'cases': rep['cases'], 'checks': rep['checks'], 'failures': len(rep['failures'])}
            res['runs'] += rep['cases']
            res['events'] += rep['checks']
            for f in rep['failures'][:24]:
                # a failure tagged with another property id belongs to that property (e.g. a reclaimed value whose allocation stays)
                tag = re.match(r'^"?\[(C\d+)\] ', f)
                res['violations'].append({'run': 0, 'prop': tag.group(1) if tag else prop, 'msg': f, 'n': 0, 'faulted': False, 'resur': False,
                                          'behaviour': [f], 'signature': mode, 'variant': 'shapes', 'source': 'shapes'})
        # compile probes (C18): a user Drop next to derive(Trace) must be rejected with E0119 unless unsafe_no_drop is given
        probe = os.path.join(VERIF, 'gen', 'dropprobe')
        # name -> (must compile, expected error code, properties the probe belongs to)
        expect = {'conflict_struct': (False, 'E0119', ['C18']), 'conflict_tuple': (False, 'E0119', ['C18']), 'conflict_unit': (False, 'E0119', ['C18']),
                  'conflict_enum': (False, 'E0119', ['C18']), 'conflict_generic': (False, 'E0119', ['C18']),
                  'nodrop_struct': (True, '', ['C18']), 'nodrop_enum': (True, '', ['C18']), 'plain_ok': (True, '', ['C18']),
                  # the set of std types with a Trace impl is part of the contract (C17); tracing through shared ownership reclaims live values (C01)
                  'shared_rc_not_trace': (False, 'E0277', ['C17', 'C01']), 'shared_arc_not_trace': (False, 'E0277', ['C17', 'C01'])}
        probes = {}
        for name, (should_compile, code, props) in expect.items():
            r = _cargo(probe, ['check', '--offline', '--quiet', '--bin', name, '--message-format', 'short'])
            ok = r.returncode == 0
            codes = sorted(set(re.findall(r'E0\d+', r.stderr)))
            probes[name] = {'compiles': ok, 'codes': codes}
            good = ok if should_compile else (not ok and codes == [code])
            res['runs'] += 1
            if not good:
                for prop in props:
                    res['violations'].append({'run': 0, 'prop': prop, 'msg': 'compile probe %s: compiles=%s errors=%s, expected %s' % (name, ok, codes, 'to compile' if should_compile else code),
                                              'n': 0, 'faulted': False, 'resur': False, 'behaviour': [name], 'signature': 'dropprobe', 'variant': 'shapes', 'source': 'shapes'})
        res['harness']['probes'] = probes
        res['sample'] = [rows['SH'][0], rows['DF'][0]]
        res['nontrivial'] = sum(1 for r in rows['SH'] if r['visits']) + sum(1 for r in rows['DF'] if r['visits'])
        return res

    return stage(key, run)


def _threshold_ok(thr, b, pn, pd):
    """Python transcription of ThresholdOk (spec/Contract.tla): the facts C15 states about the threshold after a collection."""
    k, pow2 = thr, False
    if thr >= 100 and thr % 100 == 0:
        q = thr // 100
        pow2 = q & (q - 1) == 0
    return pow2 and thr >= 100 and thr > b and (pn == 0 or b * pd > thr * pn or 2 * b >= thr or thr == 100)


def policy_stage(tier, variant):
    """C15, function part: TLC evaluates Config::adjust as specified (spec/PolicyDefs.tla) on a grid and checks the threshold facts
    (PolicyHolds); the rows it writes are then replayed against the real Config::adjust / should_collect by the harness
    (real boxes adding up to the exact byte counts)."""
    key = ['policy', tier, variant]

    def run(d):
        rows = os.path.join(d, 'rows.json')
        rc, out = tlc('Policy.tla', 'Policy_%s.cfg' % tier, d, workers=1, heap='4g', timeout=1800, env={'POLICY_ROWS': rows})
        txt = open(out, errors='replace').read()
        if 'No error has been found' not in txt:
            raise ToolError('Policy.tla: the threshold policy violates its facts:\n' + txt[-3000:])
        m = re.search(r'<<"GRID", (\d+)>>', txt)
        n = int(m.group(1)) if m else 0
        rep = run_harness(variant, ['policy', '--in', rows])
        res = {'kind': 'policy', 'variant': variant, 'params': {'tier': tier}, 'harness': rep, 'violations': [], 'events': n, 'runs': 0, 'nontrivial': 0,
               'states': 2, 'transitions': 2, 'grid_points_checked_by_tlc': n}
        if rep.get('crash'):
            res['crash'] = True
            return res
        r = rep['result']
        res['runs'] = res['nontrivial'] = r['rows'] - r.get('skipped', 0)
        res['harness'] = {'rows': r['rows'], 'skipped': r.get('skipped', 0), 'bad': len(r['bad']), 'drifted': 0}
        res['sample'] = json.load(open(rows))['rows'][:3]
        for b in r['bad']:
            row = b.get('row') or [0, 0, 0, 1, 0]
            hard = True
            if 'got' in b and 'expected' in b and 'threshold after' in b.get('problem', '') and 'ramp' not in b.get('problem', ''):
                # a threshold different from the specified function is only a violation if it breaks the stated facts
                hard = not _threshold_ok(b['got'], row[1], row[2], row[3])
            if hard:
                res['violations'].append({'run': 0, 'prop': 'C15', 'msg': 'automatic collection policy: %s' % json.dumps(b), 'n': 0, 'faulted': False, 'resur': False,
                                          'behaviour': [b], 'signature': 'policy-grid', 'variant': variant, 'source': 'policy'})
            else:
                res['harness']['drifted'] += 1
        os.unlink(rows)
        return res

    return stage(key, run)


def ptr_stage(variant):
    """C20 table part: TLC enumerates the expected comparison results (spec/PtrSpec.tla, whose laws it checks),
    the harness evaluates them on Cc<T> and on plain T."""
    key = ['ptr', variant]

    def run(d):
        rc, out = tlc('PtrSpec.tla', 'PtrSpec.cfg', d, workers=1, heap='1g', timeout=300)
        txt = open(out, errors='replace').read()
        m = re.search(r'<<"PT", "(.*)">>', txt)
        if not m or 'No error has been found' not in txt:
            raise ToolError('PtrSpec.tla failed:\n' + txt[-2000:])
        table = m.group(1).encode('utf-8').decode('unicode_escape')
        tf = os.path.join(d, 'table.json')
        with open(tf, 'w') as fh:
            fh.write(table)
        rep = run_harness(variant, ['ptr', '--in', tf])
        res = {'kind': 'ptr', 'variant': variant, 'params': {}, 'harness': rep, 'violations': [], 'events': 0, 'runs': 0, 'states': 2, 'transitions': 2}
        if rep.get('crash'):
            res['crash'] = True
            return res
        r = rep['result']
        res['runs'] = r['rows']
        res['events'] = r['rows']
        res['sample'] = json.loads(table)[:3]
        res['nontrivial'] = r['rows']
        for b in r['bad']:
            res['violations'].append({'run': 0, 'prop': 'C20', 'msg': 'Cc<T> does not behave like T: %s' % json.dumps(b), 'n': 0, 'faulted': False, 'resur': False,
                                      'behaviour': [b], 'signature': 'ptr-table', 'variant': variant, 'source': 'ptr'})
        return res

    return stage(key, run)


def satgraph_stage(variant):
    """C16 table part: the strong counter at its limit when every Cc to the object is owned by a traced container
    (spec/SatGraph.tla prints the expected answers, the harness asks the real crate)."""
    key = ['satgraph', variant]

    def run(d):
        rc, out = tlc('SatGraph.tla', 'SatGraph.cfg', d, workers=1, heap='1g', timeout=300)
        txt = open(out, errors='replace').read()
        m = re.search(r'<<"SG", "(.*)">>', txt)
        if not m or 'No error has been found' not in txt:
            raise ToolError('SatGraph.tla failed:\n' + txt[-2000:])
        table = m.group(1).encode('utf-8').decode('unicode_escape')
        tf = os.path.join(d, 'rows.json')
        with open(tf, 'w') as fh:
            fh.write(table)
        rep = run_harness(variant, ['satgraph', '--in', tf])
        res = {'kind': 'satgraph', 'variant': variant, 'params': {}, 'harness': rep, 'violations': [], 'events': 0, 'runs': 0, 'states': 2, 'transitions': 2}
        if rep.get('crash'):
            res['crash'] = True
            return res
        r = rep['result']
        if r['rows'] == 0:
            raise ToolError('satgraph: no row could be evaluated on build %s' % variant)
        res['runs'] = r['rows']
        res['events'] = r['rows'] * 6
        res['sample'] = json.loads(table)[:3]
        res['nontrivial'] = r['rows']
        for b in r['bad']:
            res['violations'].append({'run': 0, 'prop': 'C16', 'msg': 'counter at the limit, all pointers traced: %s' % json.dumps(b), 'n': 0, 'faulted': False, 'resur': False,
                                      'behaviour': [b], 'signature': 'satgraph', 'variant': variant, 'source': 'satgraph'})
        return res

    return stage(key, run)


# --------------------------------------------------------------------------- TLC engine stages

COV_RE = re.compile(r'^<(\w+) line (\d+), col (\d+) to line (\d+), col (\d+) of module (\w+)>: (\d+):(\d+)', re.M)


_info = {}


def harness_info(variant):
    if variant not in _info:
        _info[variant] = run_harness(variant, ['info'])
    return _info[variant]


def engine_stage(name, tier):
    eng = P.ENGINES[name]
    cfgname = eng['cfg'][tier]
    # The size of an object box in the model must be the real one of the build that replays the behaviours
    # (it drives the byte threshold of the automatic collection policy): substitute it into the configuration.
    sz = harness_info(eng['builds'][tier][0]).get('node_box_size', 144)
    cfgtext = re.sub(r'(?m)^(\s*SZ\s*=\s*)\d+', lambda m: m.group(1) + str(sz), open(os.path.join(SPEC, cfgname)).read())
    key = ['engine', name, cfgname, hashlib.sha256(cfgtext.encode()).hexdigest()[:12]]

    def run(d):
        extra = []
        env = {}
        if eng.get('simulate', {}).get(tier):
            # fixed seed: the walks (and therefore the check) are the same on every run of the same tree
            extra = ['-depth', str(eng.get('depth', {}).get(tier, 100)), '-seed', '20260924', '-aril', '0']
        cfgpath = os.path.join(d, cfgname)
        with open(cfgpath, 'w') as fh:
            fh.write(cfgtext)
        rc, out = tlc(eng['module'], cfgpath, d, workers=eng.get('workers', 8), extra=extra, env=env, timeout=eng.get('timeout', 3000),
                      simulate=eng.get('simulate', {}).get(tier), heap=eng.get('heap', '16g'))
        txt = open(out, errors='replace').read()
        res = {'engine': name, 'cfg': cfgname, 'rc': rc}
        m = re.search(r'(\d+) states generated, (\d+) distinct states found', txt)
        if m:
            res['transitions'], res['states'] = int(m.group(1)), int(m.group(2))
        m = re.search(r'Progress: (\d+) states checked, (\d+) traces generated \(trace length: mean=(\d+)', txt)
        if m and 'states' not in res:
            res['transitions'] = res['states'] = int(m.group(1))
            res['walks'], res['depth'] = int(m.group(2)), int(m.group(3))
        m = re.search(r'depth of the complete state graph search is (\d+)', txt)
        if m:
            res['depth'] = int(m.group(1))
        cov = {}
        ok = ('Model checking completed. No error has been found' in txt) or (eng.get('simulate', {}).get(tier) and rc in (0, -9))
        res['ok'] = bool(ok)
        if not ok:
            res['tail'] = txt[-6000:]
        # harvest behaviours; drop those that are a proper prefix of another one
        beh = os.path.join(d, 'behaviours.ndjson')
        cands, prefixes = {}, set()
        for line in txt.splitlines():
            if line.startswith('<<"RP", "'):
                body = line[len('<<"RP", "'):-3]
                try:
                    s = body.encode('utf-8').decode('unicode_escape')
                    evs = json.loads(s)
                except Exception:
                    continue
                for e in evs:
                    if e.get('e') in ('call', 'cb', 'cbx'):
                        nm = e['e'] + ':' + str(e.get('op', e.get('cb'))) + ('!' if e.get('panic') is True else '')
                        cov[nm] = cov.get(nm, 0) + 1
                    elif e.get('e') == 'ret' and e.get('panic'):
                        nm = 'ret:' + e['op'] + '!' + e['panic']
                        cov[nm] = cov.get(nm, 0) + 1
                h = hashlib.md5()
                hs = []
                for e in evs:
                    h.update(json.dumps(e, sort_keys=True).encode())
                    hs.append(h.digest())
                if hs[-1] in cands:
                    continue
                cands[hs[-1]] = s
                prefixes.update(hs[:-1])
        n = 0
        with open(beh, 'w') as fh:
            for k, s in cands.items():
                if k not in prefixes:
                    fh.write(s + '\n')
                    n += 1
        res['behaviours_emitted'] = len(cands)
        res['coverage_by_action'] = cov
        res['behaviours'] = n
        res['behaviours_file'] = beh
        # do not keep the huge TLC output, only its non-behaviour part
        with open(out, 'w') as fh:
            fh.write('\n'.join(l for l in txt.splitlines() if not l.startswith('<<"RP"'))[-200000:])
        return res

    r = stage(key, run, scope='spec')
    # the cache directory may be reached through different paths (shared between copies of /verif): never trust a stored path
    r['_dir'] = stage_dir(key, 'spec')
    r['behaviours_file'] = os.path.join(r['_dir'], 'behaviours.ndjson')
    return r


# --------------------------------------------------------------------------- known findings

def load_known():
    p = os.path.join(VERIF, 'known_findings.json')
    if not os.path.exists(p):
        return {'findings': [], 'fixed': []}
    with open(p) as fh:
        return json.load(fh)


def match_known(v, known):
    for f in known.get('findings', []):
        if f['property'] != v['prop']:
            continue
        if 'msg_regex' in f and not re.search(f['msg_regex'], v['msg']):
            continue
        if 'history_regex' in f and not re.search(f['history_regex'], v.get('signature', '')):
            continue
        return f
    return None


# --------------------------------------------------------------------------- attribution

DERIVED = {
    # property: (base properties, flag that must be set on the violation)
    'C07': ({'C01', 'C03', 'C05', 'C08'}, 'faulted'),
    'C06': ({'C01', 'C02', 'C03', 'C05'}, 'resur'),
    'C16': ({'C01', 'C03', 'C04', 'C05', 'C09'}, 'big'),
    # an upgrade succeeded for an unreachable object while destructors were running: what happens to that object is C08's business
    'C08': ({'C01', 'C03'}, 'wup'),
}


def attributed(v, pid):
    if v['prop'] == pid:
        return True
    # C19's oracle is the single-thread contract with exact counters on every thread of a multi-thread run
    if pid == 'C19' and (v.get('source') == 'threads' or v.get('par')):
        return True
    if pid in DERIVED:
        base, flag = DERIVED[pid]
        return v['prop'] in base and v.get(flag)
    return False


# --------------------------------------------------------------------------- main

def write_replay(pid, v):
    os.makedirs(REPLAYS, exist_ok=True)
    h = hashlib.sha256((pid + v['msg'] + v.get('signature', '')).encode()).hexdigest()[:12]
    path = os.path.join(REPLAYS, '%s-%s.json' % (pid, h))
    with open(path, 'w') as fh:
        json.dump({'property': pid, 'clause': v['prop'], 'msg': v['msg'], 'event_index': v.get('n'), 'variant': v.get('variant'), 'source': v.get('source'),
                   'signature': v.get('signature'), 'behaviour': v.get('behaviour')}, fh)
    return path


def run_check(pid, tier, seed):
    t0 = time.time()
    plan = P.plan(pid, tier, seed)
    known = load_known()
    variants = sorted({s['variant'] for s in plan['conformance'] if s['variant'] in BUILDS})
    build_all(variants)
    def _eng(name):
        log('engine', name)
        return engine_stage(name, tier)
    with cf.ThreadPoolExecutor(max_workers=2) as ex:
        engines = list(ex.map(_eng, plan['engines']))
    for r in engines:
        name = r['engine']
        if not r.get('ok'):
            # the specification itself violates an invariant / property: decide in DESIGN, never silently pass
            print('SPEC-VIOLATION engine=%s (see %s)' % (name, os.path.join(r.get('_dir', '.cache'), 'tlc.out')))
            print(r.get('tail', '')[-3000:])
            raise ToolError('TLC reported an error in engine %s' % name)
        for need in P.ENGINES[name].get('must_cover', []):
            if r['coverage_by_action'].get(need, 0) == 0:
                raise ToolError('vacuity guard: action %s never taken in engine %s' % (need, name))
    confs = []
    # conformance stages (some depend on engine output)
    jobs = []
    for s in plan['conformance']:
        if s['kind'] == 'replay':
            er = next(e for e in engines if e['engine'] == s['engine'])
            params = {'file': er['behaviours_file'], 'engine': s['engine'], 'n': er['behaviours'], 'sample': 1 if P.ENGINES[s['engine']].get('simulate') else (20 if tier == 'quick' else 2), 'seed': seed}
            if tier == 'thorough' and er['behaviours'] > REPLAY_CAP:
                params['cap'] = REPLAY_CAP
        else:
            params = s['params']
        jobs.append((s['kind'], s['variant'], params))
    def _conf(j):
        k, v, p = j
        if k == 'ptr':
            log('conformance ptr', v)
            return ptr_stage(v)
        if k == 'threads':
            log('conformance threads', v)
            return threads_stage(v, tier)
        if k == 'shapes':
            log('conformance shapes')
            return shapes_stage()
        if k == 'satgraph':
            log('saturation table', v)
            return satgraph_stage(v)
        if k == 'policy':
            log('policy grid', v)
            return policy_stage(tier, v)
        log('conformance', k, v, {x: y for x, y in p.items() if x != 'file'} if k != 'script' else p)
        return conformance_stage(k, v, p)
    with cf.ThreadPoolExecutor(max_workers=3) as ex:
        confs = list(ex.map(_conf, jobs))
    # verdicts
    viols, crashes, harness_bad = [], [], []
    for c in confs:
        if c.get('crash'):
            crashes.append(c)
        for v in c['violations']:
            if v['prop'] == 'HARNESS':
                harness_bad.append(v)
            elif attributed(v, pid):
                viols.append(v)
    out_lines, nviol, nknown = [], 0, 0
    seen_sig = set()
    for v in viols:
        k = match_known(v, known)
        if k:
            key = ('K', k.get('id', k.get('what')))
            if key not in seen_sig:
                seen_sig.add(key)
                out_lines.append('KNOWN-FINDING: property=%s %s' % (pid, k['what']))
                nknown += 1
            continue
        key = (v['prop'], v['msg'][:40])
        if key in seen_sig:
            continue
        seen_sig.add(key)
        path = write_replay(pid, v)
        out_lines.append('VIOLATION property=%s replay=%s' % (pid, path))
        out_lines.append('  clause %s: %s (build %s, %s, event %s%s)' % (v['prop'], v['msg'], v.get('variant'), v.get('source'), v.get('n'), ', after a caught panic' if v.get('faulted') else ''))
        nviol += 1
    hangs = [c for c in crashes if c['harness'].get('hang')]
    crashes = [c for c in crashes if not c['harness'].get('hang')]
    if hangs and pid != 'C06':
        raise ToolError('the harness timed out in %s (reported as non-termination by the C06 check)' % [c['variant'] for c in hangs])
    # a crash (signal / abort) of the real code in any stage that decides this property is a violation of it:
    # the behaviour the property describes did not happen, and memory safety (C01 / C03) is gone
    if True:
        for c in ((hangs + crashes) if pid == 'C06' else crashes):
            path = os.path.join(REPLAYS, '%s-crash-%s.json' % (pid, hashlib.sha256(json.dumps(c['params'], sort_keys=True).encode()).hexdigest()[:10]))
            os.makedirs(REPLAYS, exist_ok=True)
            with open(path, 'w') as fh:
                json.dump({'property': pid, 'msg': 'the real code crashed (signal/abort) under the harness', 'variant': c['variant'], 'kind': c['kind'], 'params': c['params'], 'harness': c['harness']}, fh)
            out_lines.append('VIOLATION property=%s replay=%s' % (pid, path))
            out_lines.append('  the real code crashed under the harness: rc=%s %s' % (c['harness'].get('returncode'), c['harness'].get('stderr', '')[-300:]))
            nviol += 1
    # evidence
    ev = P.evidence(pid, tier, seed, plan, engines, confs, nviol, nknown, time.time() - t0)
    os.makedirs(os.path.join(VERIF, 'evidence'), exist_ok=True)
    with open(os.path.join(VERIF, 'evidence', pid + '.json'), 'w') as fh:
        json.dump(ev, fh, indent=1)
    for l in out_lines:
        print(l)
    if harness_bad and nviol == 0:
        v = harness_bad[0]
        print('HARNESS-INCONSISTENCY: %s (build %s, %s); the ghost state and the harness disagree' % (v['msg'], v.get('variant'), v.get('source')))
        path = write_replay('HARNESS', v)
        print('  replay=%s' % path)
        return 2
    drift = sum(c['harness'].get('drifted', 0) for c in confs if not c.get('crash'))
    if drift:
        print('CONFORMANCE-DRIFT: %d replayed behaviours deviated from the CcImpl prediction (accepted by the contract monitor)' % drift)
    print('%s %s: %d violation(s), %d known finding(s); engines=%s states=%s; traces validated=%s events=%s; %.1fs' % (
        pid, tier, nviol, nknown, [e['engine'] for e in engines], sum(e.get('states', 0) for e in engines),
        sum(c.get('runs', 0) for c in confs), sum(c.get('events', 0) for c in confs), time.time() - t0))
    prune_cache()
    return 1 if nviol else 0


def run_replay_file(path):
    with open(path) as fh:
        rp = json.load(fh)
    beh = rp.get('behaviour') or []
    if not beh or not all(isinstance(e, dict) and 'e' in e for e in beh):
        # crash records and violations of generated cases (shapes / tables / policy rows / thread schedules) have no
        # single event history: the replay is the check itself
        print('replay: re-running the quick check of %s (the violation is not tied to one recorded history)' % rp['property'])
        return run_check(rp['property'], 'quick', int(os.environ.get('VERIF_SEED', '1') or 1))
    variant = rp.get('variant') or 'all-dev'
    d = tempfile.mkdtemp(prefix='replay', dir=CACHE if os.path.isdir(CACHE) else None)
    try:
        beh = os.path.join(d, 'b.ndjson')
        with open(beh, 'w') as fh:
            fh.write(json.dumps(rp['behaviour']) + '\n')
        trace = os.path.join(d, 't.ndjson')
        rep = run_harness(variant, ['replay', '--in', beh, '--out', trace, '--report', os.path.join(d, 'r.json')])
        if rep.get('crash'):
            print('VIOLATION property=%s replay=%s' % (rp['property'], path))
            print('  the real code crashed while replaying')
            return 1
        viols, events, _ = validate_trace(trace, d, 'r', nshards=1)
        hit = [v for v in viols if attributed(v, rp['property']) or v['prop'] == rp.get('clause')]
        for v in viols:
            print('  %s: %s (event %s)' % (v['prop'], v['msg'], v['n']))
        if hit:
            print('VIOLATION property=%s replay=%s' % (rp['property'], path))
            return 1
        print('replay accepted: %d events, no violation of %s%s' % (events, rp['property'], ' (the replay drifted from the recorded history)' if rep.get('drifted') else ''))
        return 0
    finally:
        shutil.rmtree(d, ignore_errors=True)


def main(argv):
    os.makedirs(CACHE, exist_ok=True)
    try:
        if argv and argv[0] == '--replay':
            return run_replay_file(argv[1])
        pid = argv[0]
        tier = os.environ.get('VERIF_TIER', 'quick')
        if '--tier' in argv:
            tier = argv[argv.index('--tier') + 1]
        seed = int(os.environ.get('VERIF_SEED', '1') or 1)
        return run_check(pid, tier, seed)
    except ToolError as e:
        print('TOOL-ERROR:', e)
        return 2
    except subprocess.TimeoutExpired as e:
        print('TOOL-ERROR: timeout', e)
        return 2
